"""C12, second family of cases: actions with SEVERAL numeric effects that read each other's targets.

The property: assign / increase / decrease set the target to v, old+v, old-v where v is "ordinary arithmetic on the CURRENT
fluent values" - every right-hand side of one action is read in the state BEFORE the action, and storing one result changes
nothing else.  One-effect actions cannot tell a library that stores as it goes (or that shares one mutable value holder
between the leaves of several effects) from one that does what the property says; actions whose effects read each other's
targets can.

One world = one domain with ONE action (parameters ?t ?u - thing) + objects + probes.  The worlds are judged by the shared
execution model and the shared spec (Model/Exec.v apply_op and Spec/Pddl.v successor, through Corr/Core.v): model vs
implementation and implementation vs spec, every successor fluent bit-equal.

Effect shapes (all with pairwise distinct targets among the effects that can fire together, so the PDDL successor is defined):
  sym-pair     (op A B) (op B A)                                   symmetric: whatever the order, a lost update is visible
  asym-pair    (op A c) (op' B <tree reading A>)
  chain        (op T1 T2) (op T2 T3) ... closed (last reads the first) or open
  self         (op A (+ A c)) (op' B A)        an effect reading its own target, and a second one reading it too
  self-only    (increase A A) (decrease B B)
  random       k = 2..4 effects, random right-hand sides of depth <= 2 over the targets, other fluents and constants
over 0-ary fluents (x) (y) (z), parametrised ones (load ?t) (load ?u) (dist ?t ?u) (dist ?u ?t), or both, placed
  one          all in the unconditional group
  when-tail    the first effects unconditional, the rest under (when ANT ...)
  all-when     all under one when
  two-whens    two whens (both may fire)
  excl-whens   one target written by two mutually exclusive whens, read by an unconditional effect
  forall       unconditional effects on 0-ary fluents reading (load ?t) + (forall (?o - thing) (when (ready ?o) (op (load ?o) ...)))
ANT is (flag), (not (flag)), (ready ?u) or a comparison on one of the targets (read in the pre-state).
"""
import itertools
import json

from .common import cbool, chex, clist, cstr
from .core_common import catom, cobs_bool, cobs_state, cstate, nat_list

HEADER = "From Coq Require Import PrimFloat.\nFrom Verif Require Import Spec.Pddl Corr.Core.\n"

ASG = ["increase", "decrease", "assign"]
CONSTS = ["1", "2", "0.5", "3", "10", "0.1", "-1.5", "7.25", "100", "0.3"]
VALS = [0.0, 1.0, 10.0, 0.1, 0.2, 1 / 3.0, -2.5, 1e15, 1e-7, 3.0, 7.25, -0.0, 100.0, 0.5, 2.0, -1.0, 123456.789, 1e-3]

X, Y, Z = ["fl", "x", []], ["fl", "y", []], ["fl", "z", []]
LT, LU = ["fl", "load", ["?t"]], ["fl", "load", ["?u"]]
DTU, DUT = ["fl", "dist", ["?t", "?u"]], ["fl", "dist", ["?u", "?t"]]
POOL0 = [X, Y, Z]
POOLP = [LT, LU, DTU, DUT]


def text(e):
    if e[0] == "num":
        return e[1]
    if e[0] == "fl":
        return "(" + " ".join([e[1]] + e[2]) + ")"
    return "(%s %s %s)" % (e[1], text(e[2]), text(e[3]))


def num(t):
    return ["num", t]


def pick_targets(rng, k, kind):
    pool = {"0ary": POOL0, "param": POOLP, "mixed": POOL0 + POOLP}[kind]
    if kind == "mixed":
        # at least one of each sort
        while True:
            ts = rng.sample(pool, k)
            if any(t in POOL0 for t in ts) and any(t in POOLP for t in ts):
                return ts
    return rng.sample(pool, min(k, len(pool)))


def rand_rhs(rng, readable, d):
    if d == 0 or rng.random() < 0.25:
        return rng.choice(readable) if rng.random() < 0.7 else num(rng.choice(CONSTS))
    op = rng.choice(["+", "-", "*", "+", "-"])
    return ["bin", op, rand_rhs(rng, readable, d - 1), rand_rhs(rng, readable, d - 1)]


def shape_effects(rng, shape, kind):
    """-> list of (op, target, rhs)"""
    if shape == "sym-pair":
        a, b = pick_targets(rng, 2, kind)
        op = rng.choice(ASG)
        return [(op, a, b), (op, b, a)]
    if shape == "asym-pair":
        a, b = pick_targets(rng, 2, kind)
        rb = a if rng.random() < 0.5 else ["bin", rng.choice(["+", "-", "*"]), a, num(rng.choice(CONSTS))]
        if rng.random() < 0.3:
            rb = ["bin", rng.choice(["+", "-", "*"]), num(rng.choice(CONSTS)), a]
        return [(rng.choice(ASG), a, num(rng.choice(CONSTS))), (rng.choice(ASG), b, rb)]
    if shape == "chain":
        k = rng.choice([3, 3, 4])
        ts = pick_targets(rng, k, kind)
        k = len(ts)
        closed = rng.random() < 0.6
        out = []
        for i, t in enumerate(ts):
            if i + 1 < k:
                rhs = ts[i + 1]
            else:
                rhs = ts[0] if closed else num(rng.choice(CONSTS))
            out.append((rng.choice(ASG), t, rhs))
        return out
    if shape == "self":
        a, b = pick_targets(rng, 2, kind)
        ra = ["bin", rng.choice(["+", "-", "*"]), a, num(rng.choice(CONSTS))]
        if rng.random() < 0.3:
            ra = ["bin", rng.choice(["+", "-"]), a, b]
        return [(rng.choice(ASG), a, ra), (rng.choice(ASG), b, a)]
    if shape == "self-only":
        a, b = pick_targets(rng, 2, kind)
        return [("increase", a, a), (rng.choice(["decrease", "increase"]), b, b)]
    if shape == "random":
        k = rng.choice([2, 3, 4])
        ts = pick_targets(rng, k, kind)
        others = [f for f in POOL0 + POOLP if f not in ts]
        readable = ts + ts + others[:2]
        return [(rng.choice(ASG), t, rand_rhs(rng, readable, 2)) for t in ts]
    raise ValueError(shape)


def eff_text(e):
    op, tgt, rhs = e
    return "(%s %s %s)" % (op, text(tgt), text(rhs))


def antecedent(rng, effects):
    r = rng.random()
    if r < 0.25:
        return "(flag)", "flag"
    if r < 0.45:
        return "(not (flag))", "not-flag"
    if r < 0.6:
        return "(ready ?u)", "ready-u"
    tgt = rng.choice(effects)[1]
    c = rng.choice(["<", ">", "<=", ">="])
    return "(%s %s %s)" % (c, text(tgt), rng.choice(["0", "1", "0.5", "5", "-1"])), "numeric-on-target"


def place(rng, effects, mode):
    """-> (list of effect-section items as text, info)"""
    k = len(effects)
    if mode == "one":
        return [eff_text(e) for e in effects], {}
    if mode == "when-tail":
        cut = rng.randint(1, k - 1)
        ant, ak = antecedent(rng, effects)
        return [eff_text(e) for e in effects[:cut]] + \
               ["(when %s (and %s))" % (ant, " ".join(eff_text(e) for e in effects[cut:]))], {"antecedent": ak}
    if mode == "all-when":
        ant, ak = antecedent(rng, effects)
        return ["(when %s (and %s))" % (ant, " ".join(eff_text(e) for e in effects))], {"antecedent": ak}
    if mode == "two-whens":
        cut = rng.randint(1, k - 1)
        a1, k1 = antecedent(rng, effects)
        a2, k2 = antecedent(rng, effects)
        return ["(when %s (and %s))" % (a1, " ".join(eff_text(e) for e in effects[:cut])),
                "(when %s (and %s))" % (a2, " ".join(eff_text(e) for e in effects[cut:]))], {"antecedent": k1 + "+" + k2}
    if mode == "excl-whens":
        op, a, rhs = effects[0]
        alt = (rng.choice(ASG), a, rand_rhs(rng, [e[1] for e in effects], 1))
        items = ["(when (flag) (and %s))" % eff_text(effects[0]), "(when (not (flag)) (and %s))" % eff_text(alt)]
        return [eff_text(e) for e in effects[1:]] + items, {"antecedent": "flag/not-flag"}
    raise ValueError(mode)


def forall_action(rng):
    """unconditional effects on 0-ary fluents reading (load ?t); a forall-when writing (load ?o) and reading the 0-ary targets"""
    a, b = rng.sample(POOL0, 2)
    lo = ["fl", "load", ["?o"]]
    u1 = (rng.choice(ASG), a, rng.choice([LT, ["bin", "+", LT, b], ["bin", "-", LU, a]]))
    items = [eff_text(u1)]
    if rng.random() < 0.6:
        items.append(eff_text((rng.choice(ASG), b, rng.choice([a, ["bin", "*", a, LT]]))))
    inner = (rng.choice(ASG), lo, rng.choice([a, ["bin", "+", a, lo], ["bin", "-", lo, b], ["bin", "+", LT, LU]]))
    items.append("(forall (?o - thing) (when (ready ?o) (and %s)))" % eff_text(inner))
    return items, {"antecedent": "ready-o"}


SHAPES = ["sym-pair", "asym-pair", "chain", "self", "self-only", "random"]
KINDS = ["0ary", "param", "mixed"]
MODES = ["one", "one", "when-tail", "all-when", "two-whens", "excl-whens"]


def gen_action(rng, shape=None, kind=None, mode=None):
    shape = shape or rng.choice(SHAPES + ["forall"])
    if shape == "forall":
        items, info = forall_action(rng)
        kind, mode = "mixed", "forall"
        effects = []
    else:
        kind = kind or rng.choice(KINDS)
        mode = mode or rng.choice(MODES)
        effects = shape_effects(rng, shape, kind)
        if len(effects) < 2 and mode in ("when-tail", "two-whens"):
            mode = "one"
        items, info = place(rng, effects, mode)
    r = rng.random()
    if r < 0.55 or not effects:
        pre, pk = "(and (ready ?t))", "literal"
    elif r < 0.8:
        pre, pk = "(and (ready ?t) (<= %s 1e30))" % text(rng.choice(effects)[1]), "literal+numeric-on-target(true)"
    else:
        pre, pk = "(and (%s %s %s))" % (rng.choice(["<=", ">=", "<", ">"]), text(rng.choice(effects)[1]),
                                      rng.choice(["0", "1", "0.5", "5"])), "numeric-on-target"
    info.update({"shape": shape, "kind": kind, "mode": mode, "precondition": pk, "n_effects": max(len(effects), len(items))})
    dom = ("(define (domain c12m)\n(:requirements :typing :fluents :conditional-effects)\n(:types thing)\n"
           "(:predicates (ready ?t - thing) (flag))\n"
           "(:functions (x) (y) (z) (load ?t - thing) (dist ?a - thing ?b - thing))\n"
           "(:action act\n :parameters (?t - thing ?u - thing)\n :precondition %s\n :effect (and %s))\n)\n" % (pre, " ".join(items)))
    return dom, info


def ground_fluents(objs):
    out = [("x", []), ("y", []), ("z", [])]
    out += [("load", [o]) for o in objs]
    out += [("dist", [a, b]) for a in objs for b in objs if a != b]
    return out


def problem_text(objs):
    """the template problem: every ground fact and every fluent is initialised (states are cut out of it)"""
    init = ["(flag)"] + ["(ready %s)" % o for o in objs] + \
           ["(= (%s) 0)" % " ".join([f] + a) for f, a in ground_fluents(objs)]
    return "(define (problem p) (:domain c12m)\n(:objects %s - thing)\n(:init %s)\n(:goal (and (flag))))\n" % (
        " ".join(objs), " ".join(init))


def gen_state(rng, objs, args, want_applicable):
    facts = []
    if rng.random() < 0.5:
        facts.append(["flag", []])
    for o in objs:
        if (o == args[0] and want_applicable) or rng.random() < 0.5:
            facts.append(["ready", [o]])
    fl = []
    for f, a in ground_fluents(objs):
        if rng.random() < 0.1:
            continue                                   # a fluent absent from the state reads as 0
        r = rng.random()
        v = rng.choice(VALS) if r < 0.75 else round(rng.uniform(-50, 50), rng.randint(0, 3)) if r < 0.9 else rng.uniform(-1, 1) * 10 ** rng.randint(-6, 9)
        fl.append([f, a, float(v).hex()])
    return {"facts": facts, "fluents": fl}


def gen_world(rng, tier, shape=None, kind=None, mode=None):
    dom, info = gen_action(rng, shape, kind, mode)
    objs = ["a", "b"] if (info["mode"] != "forall" and rng.random() < 0.7) else ["a", "b", "c"]
    calls = [["a", "b"], ["b", "a"]] if len(objs) == 2 else rng.sample([["a", "b"], ["b", "a"], ["a", "c"], ["c", "b"]], 2)
    probes = []
    n_states = 2 if tier == "quick" else 3
    for args in calls:
        for s in range(n_states):
            st = gen_state(rng, objs, args, want_applicable=rng.random() < 0.85)
            orders = [(0, None, 2), (0, "sorted", 1), (rng.randint(1, 10 ** 6), "reversed", 1)]
            if tier == "thorough":
                orders += [(rng.randint(1, 10 ** 6), rng.randint(1, 10 ** 6), 1) for _ in range(2)]
            elif rng.random() < 0.5:
                orders.append((rng.randint(1, 10 ** 6), rng.randint(1, 10 ** 6), 1))
            for gs, no, steps in orders:
                probes.append({"action": "act", "args": args, "facts": st["facts"], "fluents": st["fluents"],
                               "group_seed": gs, "num_order": no, "steps": steps})
    return {"domain_text": dom, "problem_text": problem_text(objs), "objects": [[o, "thing"] for o in objs],
            "probes": probes, "info": info}


def gen_worlds(rng, tier):
    worlds = []
    # every shape x kind once (modes rotate), then random ones
    modes = list(MODES)
    k = 0
    for shape in SHAPES:
        for kind in KINDS:
            if tier == "quick" and (k + rng.randrange(2)) % 2:
                k += 1
                continue
            worlds.append(gen_world(rng, tier, shape, kind, modes[k % len(modes)]))
            k += 1
    worlds.append(gen_world(rng, tier, "sym-pair", "0ary", "one"))
    worlds.append(gen_world(rng, tier, "forall"))
    for _ in range(6 if tier == "quick" else 70):
        worlds.append(gen_world(rng, tier))
    return worlds


def job_of(wd, natural_only=False):
    probes = wd["probes"]
    if natural_only:
        probes = [p for p in probes if p["num_order"] is None]
    return {"op": "c12.actions_world", "domain_text": wd["domain_text"], "problem_text": wd["problem_text"], "probes": probes}


def world_literal(wd, job, res):
    """-> (literal of the whole world, units, per-unit records [(kind, probe index, step index, single-probe literal)])"""
    nums = clist(["(%s, %s)" % (cstr(k), chex(float.fromhex(v))) for k, v in sorted(res["nums"].items())])
    objs = clist(["(%s, %s)" % (cstr(n), cstr(t)) for n, t in wd["objects"]])
    parsed = "(Returned %s)" % cstr(res["vocab"]) if "vocab" in res else "Raised"

    def wl(probes):
        return "{| w_text := %s; w_nums := %s; w_eps := %s; w_objs := %s; w_oof := false; w_parsed := %s; w_probes := %s |}" % (
            cstr(wd["domain_text"]), nums, chex(float.fromhex(res["eps"])), objs, parsed, clist(probes))
    plits, records = [], [("parse", None, None, None)]
    if "vocab" in res:
        for pi, (pr, r) in enumerate(zip(job["probes"], res["probes"])):
            if "setup_raised" in r:
                raise RuntimeError("driver could not set the probe up: %r" % (r,))
            for si, st in enumerate(r["steps"]):
                lit = "{| p_action := %s; p_args := %s; p_state := %s; p_app := %s; p_order := %s; p_uorder := %s; p_succ := %s |}" % (
                    cstr(pr["action"]), clist([cstr(a) for a in pr["args"]]), cstate(st["state"]), cobs_bool(st["app"]),
                    nat_list(r["ngroups"]), nat_list(r["nuniv"]), cobs_state(st["succ"]))
                plits.append(lit)
                records.append(("app", pi, si, lit))
                records.append(("succ", pi, si, lit))
    whole = wl(plits)
    recs = [(k, pi, si, wl([l]) if l else whole) for k, pi, si, l in records]
    return whole, len(records), recs
