"""Shared driver pieces for the properties decided on generated 'worlds' (C01, C02, C03, ...)."""
import json

from .common import (cbool, chex, clist, cstr, run_impl)
from . import pddlgen as G


def catom(p, args):
    return "(%s, %s)" % (cstr(p), clist([cstr(a) for a in args]))


def cstate(st):
    """st: {'facts': [[p, args]], 'fluents': [[f, args, value(float or hex str)]]}"""
    facts = clist([catom(p, a) for p, a in st["facts"]])
    fl = []
    for f, a, v in st["fluents"]:
        x = float.fromhex(v) if isinstance(v, str) else float(v)
        fl.append("(%s, %s)" % (catom(f, a), chex(x)))
    return "{| facts := %s; fluents := %s |}" % (facts, clist(fl))


def cobs_bool(r):
    return "(Returned %s)" % cbool(r["value"]) if "value" in r else "Raised"


def cobs_state(r):
    return "(Returned %s)" % cstate(r["value"]) if "value" in r else "Raised"


def nat_list(n):
    return clist([str(i) for i in range(n)])


def world_literal(wd, res, eps_hex):
    """wd: dict(domain_text, objects, oof, probes[...]); res: implementation answer"""
    nums = clist(["(%s, %s)" % (cstr(k), chex(float.fromhex(v))) for k, v in sorted(res["nums"].items())])
    objs = clist(["(%s, %s)" % (cstr(n), cstr(t)) for n, t in wd["objects"]])
    parsed = "(Returned %s)" % cstr(res["vocab"]) if "vocab" in res else "Raised"
    probes = []
    units = 1
    if "vocab" in res:
        for pr, r in zip(wd["probes"], res["probes"]):
            if "problem_raised" in r:
                app, succ = "Raised", "Raised"
            else:
                app, succ = cobs_bool(r["app"]), cobs_state(r["succ"])
            ng = r.get("ngroups", 1 + pr.get("nwhen", 0))
            probes.append("{| p_action := %s; p_args := %s; p_state := %s; p_app := %s; p_order := %s; p_uorder := %s; p_succ := %s |}" % (
                cstr(pr["action"]), clist([cstr(a) for a in pr["args"]]), cstate(pr["state"]), app,
                nat_list(ng), nat_list(pr.get("nuniv", 0)), succ))
            units += 2
    lit = "{| w_text := %s; w_nums := %s; w_eps := %s; w_objs := %s; w_oof := %s; w_parsed := %s; w_probes := %s |}" % (
        cstr(wd["domain_text"]), nums, chex(float.fromhex(eps_hex)), objs, cbool(wd["oof"]), parsed, clist(probes))
    return lit, units


def count_groups(action):
    eff = action["eff"]
    nwhen = sum(1 for e in eff[1:] if isinstance(e, list) and e and e[0] == "when")
    nuniv = sum(1 for e in eff[1:] if isinstance(e, list) and e and e[0] == "forall")
    return nwhen, nuniv


def build_world(rng, w, n_states=2, calls_per_action=4, perms=(0, 1), noise=True, name="dom"):
    """turn a generated World into the job for the implementation and the bookkeeping for the case"""
    objs = G.gen_objects(rng, w)
    text = G.render(w.domain_tree(name), rng, noise)
    probes = []
    for _ in range(n_states):
        st = G.gen_state(rng, w, objs)
        ptxt = G.problem_text(w, objs, st, domain=name)
        for a in w.actions:
            nwhen, nuniv = count_groups(a)
            for args in G.calls_for(rng, w, objs, a, limit=calls_per_action):
                for perm in perms:
                    if perm and nwhen + nuniv == 0:
                        continue
                    probes.append({"action": a["name"], "args": args, "state": st, "problem_text": ptxt,
                                   "perm_seed": perm and rng.randint(1, 10 ** 6), "nwhen": nwhen, "nuniv": nuniv})
    return {"domain_text": text, "objects": objs, "oof": w.oof, "oof_kind": w.oof_kind, "probes": probes,
            "features": sorted(w.features), "tree": w.domain_tree(name)}


def run_worlds(worlds, hashseed=0, env_extra=None):
    jobs = [{"op": "core.world", "domain_text": wd["domain_text"], "objects": wd["objects"],
             "probes": [{k: p[k] for k in ("action", "args", "problem_text", "perm_seed")} for p in wd["probes"]]}
            for wd in worlds]
    return run_impl(jobs, hashseed=hashseed, env_extra=env_extra)


def flatten_units(worlds, results):
    """one entry per verdict character, in the order Corr.Core.judge_world emits them"""
    units = []
    for wi, (wd, res) in enumerate(zip(worlds, results)):
        units.append({"world": wi, "kind": "parse"})
        if "vocab" in res:
            for pi, _ in enumerate(wd["probes"]):
                units.append({"world": wi, "kind": "app", "probe": pi})
                units.append({"world": wi, "kind": "succ", "probe": pi})
    return units
