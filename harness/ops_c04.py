"""Implementation driver for C04: TrajectoryExporter.parse_plan / export and direct Operator.apply."""
from pathlib import Path

from pddl_plus_parser.exporters import TrajectoryExporter
from pddl_plus_parser.exporters.numeric_trajectory_exporter import parse_action_call
from pddl_plus_parser.lisp_parsers import DomainParser, ProblemParser
from pddl_plus_parser.models import Operator, State

from ops_core import exc, number_table, read_state_text, vocab, write_tmp


def merge_nums(out, text):
    for k, v in number_table(text).items():
        out.setdefault(k, v)


def plan(job):
    """job: domain_text | domain_path, problem_text | problem_path, lines [str] | plan_path, allow (bool)
    -> vocabulary, objects, initial state, triplets (pre, operator text, post, direct application), exported text"""
    out = {"nums": {}}
    tmp = []
    try:
        if "domain_path" in job:
            dpath = Path(job["domain_path"])
            dtext = dpath.read_text()
        else:
            dtext = job["domain_text"]
            dpath = write_tmp(dtext, ".pddl")
            tmp.append(dpath)
        out["domain_text"] = dtext if "domain_path" in job else None
        merge_nums(out["nums"], dtext)
        try:
            domain = DomainParser(dpath).parse_domain()
            out["vocab"] = vocab(domain)
        except Exception as e:  # noqa
            out["parse_raised"] = exc(e)
            return out
        if "problem_path" in job:
            ppath = Path(job["problem_path"])
        else:
            ppath = write_tmp(job["problem_text"], ".pddl")
            tmp.append(ppath)
        try:
            problem = ProblemParser(ppath, domain).parse_problem()
        except Exception as e:  # noqa
            out["problem_raised"] = exc(e)
            return out
        out["objects"] = [[n, o.type.name] for n, o in problem.objects.items()]
        init = State(problem.initial_state_predicates, problem.initial_state_fluents, is_init=True)
        out["init"] = read_state_text(init.serialize())
        if "plan_path" in job:
            with open(job["plan_path"], "rt") as fh:
                lines = fh.readlines()
            if job.get("max_lines"):
                lines = lines[:job["max_lines"]]
        else:
            lines = list(job["lines"])
        out["lines"] = lines
        exporter = TrajectoryExporter(domain, allow_invalid_actions=bool(job["allow"]))
        try:
            triplets = exporter.parse_plan(problem, action_sequence=lines)
        except Exception as e:  # noqa
            out["trace_raised"] = exc(e)
            return out
        steps = []
        for line, t in zip(lines, triplets):
            st = {"pre": read_state_text(t.previous_state.serialize()), "op": str(t.operator),
                  "post": read_state_text(t.next_state.serialize())}
            steps.append(st)
        out["n_triplets"] = len(triplets)
        try:
            text = "".join(TrajectoryExporter.export(triplets))
            out["export"] = text
            merge_nums(out["nums"], text)
        except Exception as e:  # noqa
            out["export_raised"] = exc(e)
        # direct application of every line's call in the pre-state the exporter used (on a private copy)
        for line, t, st in zip(lines, triplets, steps):
            try:
                call = parse_action_call(line)
                op = Operator(domain.actions[call.name], domain, call.parameters, problem.objects)
                pre = t.previous_state.copy()
                try:
                    st["applicable"] = bool(op.is_applicable(pre))
                except Exception as e:  # noqa
                    st["applicable"] = None
                nxt = op.apply(t.previous_state.copy(), allow_inapplicable_actions=bool(job["allow"]))
                st["direct"] = {"value": read_state_text(nxt.serialize())}
            except ValueError as e:
                st["direct"] = {"refused": str(e)[:100]}
            except Exception as e:  # noqa
                st["direct"] = exc(e)
        out["steps"] = steps
        return out
    finally:
        for p in tmp:
            try:
                p.unlink()
            except OSError:
                pass


def lex(job):
    """parse_action_call on raw texts: [name, params] or the exception class"""
    out = []
    for t in job["texts"]:
        try:
            c = parse_action_call(t)
            out.append({"name": c.name, "params": list(c.parameters)})
        except Exception as e:  # noqa
            out.append({"raised": type(e).__name__})
    return out
