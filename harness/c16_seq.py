"""C16 — process-level sequences: ONE worker job in which the library's objects are reused.

One Domain object (sometimes a second one parsed from a text with the same domain name and one effect literal flipped),
two or three problems over it whose object sets differ (the same call texts are type-correct in all of them), exporter
instances used for several plans with different flag values, the initial-state OBJECT of a problem handed to several
direct calls, returned state objects handed on, one plan-file path rewritten.  Every step is judged as a case of its
own: the model is a pure function of THAT call's inputs, so whatever the implementation remembers from earlier calls
shows up as a disagreement / spec violation of the step where it matters.
"""
import copy
import json

from . import pddlgen as G

NOP = ["nop", []]


def quantified_types(w):
    out = set()

    def walk(t):
        if isinstance(t, list):
            if t and t[0] == "forall" and len(t) >= 3 and isinstance(t[1], list) and len(t[1]) == 3:
                out.add(t[1][2])
            for x in t:
                walk(x)
    for a in w.actions:
        walk(a["pre"])
        walk(a["eff"])
    return sorted(out)


def has_forall(action):
    return "forall" in json.dumps([action["pre"], action["eff"]])


def variant_text(rng, w):
    """the same domain name and action names, one unconditional add/delete literal of one action flipped"""
    acts = copy.deepcopy(w.actions)
    cands = []
    for ai, a in enumerate(acts):
        for ii, it in enumerate(a["eff"][1:], start=1):
            if isinstance(it, list) and it and it[0] not in ("when", "forall", "assign", "increase", "decrease"):
                cands.append((ai, ii))
    if not cands:
        return None
    ai, ii = rng.choice(cands)
    it = acts[ai]["eff"][ii]
    acts[ai]["eff"][ii] = it[1] if it[0] == "not" else ["not", it]
    saved = w.actions
    w.actions = acts
    try:
        return G.render(w.domain_tree("dom"))
    finally:
        w.actions = saved


def extend_state(rng, w, base_state, objs_all, new_names):
    """the base state plus random facts / fluent values for the ground atoms that mention a new object"""
    new = set(new_names)
    dens = rng.choice([0.3, 0.6, 0.9])
    facts = [list(f) for f in base_state["facts"]]
    facts += [a for a in G.ground_atoms(w, objs_all, w.preds) if new & set(a[1]) and rng.random() < dens]
    fluents = [tuple(f) for f in base_state["fluents"]]
    fluents += [(f, args, rng.choice(G.DYADIC)) for f, args in G.ground_atoms(w, objs_all, w.funcs) if new & set(args)]
    return {"facts": facts, "fluents": fluents}


def restrict_state(base_state, names):
    keep = set(names)
    return {"facts": [f for f in base_state["facts"] if set(f[1]) <= keep],
            "fluents": [f for f in base_state["fluents"] if set(f[1]) <= keep]}


def gen_seq_worlds(rng, n, footprint):
    """worlds with 2-3 problems each; 'contexts' = (domain index, objects, state, problem text)"""
    worlds, tries = [], 0
    while len(worlds) < n and tries < 6 * n:
        tries += 1
        w = G.gen_world(rng, max_actions=4)
        # prefer worlds in which a quantifier can see the difference between two object sets
        if not any(has_forall(a) for a in w.actions) and rng.random() < 0.75:
            continue
        objs_a = G.gen_objects(rng, w, n=rng.randint(3, 4))
        qts = quantified_types(w)
        ts = w.all_types()
        extras = []
        for i in range(rng.randint(1, 2)):
            if qts and rng.random() < 0.8:
                # an object a quantifier ranges over: the quantified type or one of its subtypes
                qt = rng.choice(qts)
                ty = rng.choice([t for t in ts if w.is_sub(t, qt)] or [qt])
            else:
                ty = rng.choice(ts)
            extras.append(("o%d" % (len(objs_a) + i), ty))
        objs_b = objs_a + extras
        consts = [c for c, _ in w.consts]
        names_a = [o for o, _ in objs_a]
        st_a = G.gen_state(rng, w, objs_a)
        st_b = extend_state(rng, w, st_a, objs_b, [o for o, _ in extras]) if rng.random() < 0.6 else G.gen_state(rng, w, objs_b)
        ctxs = [{"domain": 0, "objects": objs_a, "state": st_a}, {"domain": 0, "objects": objs_b, "state": st_b}]
        common = objs_a
        if len(objs_a) >= 4 and rng.random() < 0.5:
            objs_c = objs_a[:-1]
            st_c = restrict_state(st_a, [o for o, _ in objs_c] + consts) if rng.random() < 0.6 else G.gen_state(rng, w, objs_c)
            ctxs.append({"domain": 0, "objects": objs_c, "state": st_c})
            common = objs_c
        calls = []
        for a in w.actions:
            for args in G.calls_for(rng, w, common, a, limit=20):
                calls.append([a["name"], list(args)])
        if len(calls) < 2:
            continue
        domains = [G.render(w.domain_tree("dom"), rng, True)]
        if rng.random() < 0.4:
            vt = variant_text(rng, w)
            if vt:
                domains.append(vt)
                k = rng.randrange(len(ctxs))
                ctxs.append({"domain": 1, "objects": ctxs[k]["objects"], "state": ctxs[k]["state"]})
        rng.shuffle(ctxs)
        for i, c in enumerate(ctxs):
            c["objects"] = [list(o) for o in c["objects"]]
            c["problem_text"] = G.problem_text(w, [tuple(o) for o in c["objects"]], c["state"], name="prob%d" % i, domain="dom")
        acts = {a["name"]: a for a in w.actions}
        all_names = [o for o, _ in objs_b] + consts
        fps = {json.dumps(c): footprint(acts[c[0]], c[1], all_names) for c in calls}
        worlds.append({"domains": domains, "contexts": ctxs, "calls": calls, "fps": fps,
                       "forall_actions": sorted(a["name"] for a in w.actions if has_forall(a)),
                       "features": sorted(w.features), "names_a": names_a})
    return worlds


def build_sequence(rng, sw, probes, tools):
    """probes: one per context ({'applicable': [...]}); tools: render_joint, with_nops, pick_independent from the driver"""
    render_joint, with_nops, pick_independent = tools
    ctxs = sw["contexts"]
    calls = sw["calls"]
    fp_of = lambda c: sw["fps"][json.dumps(c)]
    good, bad = [], []
    for pr in probes:
        app = pr.get("applicable")
        if app is None:
            return None
        good.append([c for c, a in zip(calls, app) if a is True])
        bad.append([c for c, a in zip(calls, app) if a is False])
    n_dom = len(sw["domains"])
    exporters = []
    for d in range(n_dom):
        exporters.append({"domain": d, "allow": False})
        exporters.append({"domain": d, "allow": rng.random() < 0.6})
    plain_exp = lambda k: 2 * ctxs[k]["domain"]                 # the exporter built without the flag
    other_exp = lambda k: 2 * ctxs[k]["domain"] + 1
    steps = []
    quant = [c for c in calls if c[0] in sw["forall_actions"]]

    def members_for(k, size=None, prefer_quant=True):
        size = size or rng.choice([1, 1, 2, 2, 3])
        pool = good[k] if len(good[k]) >= size and rng.random() < 0.85 else calls
        if prefer_quant and quant and rng.random() < 0.7:
            q = [c for c in pool if c in quant] or quant
            first = rng.choice(q)
            rest = pick_independent(rng, [c for c in pool if c != first], fp_of, size - 1) if size > 1 else []
            ms = [first] + rest
            rng.shuffle(ms)
            return [list(m) for m in ms]
        ms = pick_independent(rng, pool, fp_of, size) if rng.random() < 0.7 else rng.sample(pool, min(size, len(pool)))
        return [list(m) for m in (ms or [rng.choice(pool)])]

    def apply_step(k, members, allow=False, state="init", tag=""):
        steps.append({"kind": "apply", "problem": k, "state": state, "members": [list(m) for m in members], "allow": allow,
                      "tag": tag})
        return len(steps) - 1

    def plan_step(k, lines, allow=False, e=None, via=None, tag=""):
        via = via or rng.choice(["seq", "seq", "file"])
        if via == "file":                                    # one joint action per line of the file
            lines = [l if l.endswith("\n") else l + "\n" for l in lines[:-1]] + list(lines[-1:])
        steps.append({"kind": "plan", "problem": k, "exporter": plain_exp(k) if e is None else e, "lines": list(lines),
                      "allow": allow, "via": via, "tag": tag})

    def triplet_step(k, line, allow=False, e=None, tag=""):
        steps.append({"kind": "triplet", "problem": k, "exporter": plain_exp(k) if e is None else e, "line": line,
                      "allow": allow, "tag": tag})

    def line(members, nops=None):
        return render_joint(rng, with_nops(rng, members, rng.randint(0, 2) if nops is None else nops))

    def bad_line(k):
        ms = members_for(k, rng.choice([1, 2]), prefer_quant=False) if rng.random() < 0.7 else []
        ms.insert(rng.randint(0, len(ms)), list(rng.choice(bad[k])))
        return ms

    def block_across():
        """the same call texts on every problem of the Domain object (other objects each time)"""
        ms = members_for(rng.randrange(len(ctxs)))
        order = list(range(len(ctxs)))
        rng.shuffle(order)
        for k in order:
            r = rng.random()
            if r < 0.5:
                apply_step(k, with_nops(rng, ms, rng.randint(0, 1)), tag="across")
            if r > 0.3:
                plan_step(k, [line(ms)] + ([line(members_for(k))] if rng.random() < 0.3 else []), tag="across")

    def block_flags():
        """one exporter, several plans with an inapplicable member, the per-call flag changing between them"""
        ks = [k for k in range(len(ctxs)) if bad[k]]
        if not ks:
            return block_across()
        k = rng.choice(ks)
        ms = bad_line(k)
        pattern = rng.choice([[False, True, False], [True, False], [False, True, False, False], [True, True, False],
                              [True, False, True, False]])
        for i, allow in enumerate(pattern):
            if rng.random() < 0.3:
                triplet_step(k, line(ms), allow=allow, tag="flags")
            else:
                pre = [line(members_for(k, prefer_quant=False))] if good[k] and rng.random() < 0.3 else []
                plan_step(k, pre + [line(ms)], allow=allow, tag="flags")
            if i + 1 < len(pattern) and rng.random() < 0.35:
                # another exporter instance in between (built with its own flag): nothing may leak between instances
                plan_step(k, [line(ms)], allow=False, e=other_exp(k), tag="flags-other-exporter")
        if good[k] and rng.random() < 0.6:
            plan_step(k, [line(members_for(k))], tag="flags-then-valid")

    def block_refuse_reuse():
        """a refused joint action, then the same state object and the same exporter again"""
        ks = [k for k in range(len(ctxs)) if bad[k]]
        if not ks:
            return block_chain()
        k = rng.choice(ks)
        ms = bad_line(k)
        if rng.random() < 0.5:
            apply_step(k, ms, tag="refuse")
        else:
            triplet_step(k, line(ms), tag="refuse")
        follow = members_for(k)
        apply_step(k, follow, tag="after-refusal")
        if rng.random() < 0.5:
            triplet_step(k, line(follow), tag="after-refusal")
        if rng.random() < 0.5:
            apply_step(k, ms, allow=True, tag="forced-after-refusal")
            apply_step(k, ms, tag="refuse-again")

    def block_chain():
        """a returned state object handed to later calls, twice"""
        k = rng.randrange(len(ctxs))
        i = apply_step(k, members_for(k), tag="chain-0")
        m2 = members_for(k)
        j = apply_step(k, m2, state=i, tag="chain-1")
        apply_step(k, m2 if rng.random() < 0.6 else members_for(k), state=i, tag="chain-1-again")
        if rng.random() < 0.5:
            apply_step(k, members_for(k), state=j, tag="chain-2")
        apply_step(k, members_for(k), tag="init-again")

    def block_files():
        """the same plan-file path rewritten"""
        ks = [rng.randrange(len(ctxs)) for _ in range(rng.randint(2, 3))]
        first = None
        for k in ks:
            ls = [line(members_for(k)) for _ in range(rng.randint(1, 2))]
            first = first or (k, ls)
            plan_step(k, ls, via="file", tag="file")
        if rng.random() < 0.6:
            plan_step(first[0], first[1], via="file", tag="file-again")

    def block_idle():
        """nobody acts: alone, as the first step of a plan, on the shared initial-state object"""
        k = rng.randrange(len(ctxs))
        idle = [list(NOP) for _ in range(rng.randint(1, 3))]
        r = rng.random()
        if r < 0.4:
            apply_step(k, idle if rng.random() < 0.8 else [], tag="idle")
        elif r < 0.7:
            triplet_step(k, line(idle, 0), tag="idle")
        else:
            plan_step(k, [line(idle, 0)] + [line(members_for(k)) for _ in range(rng.randint(0, 2))], tag="idle-first")
        if rng.random() < 0.7:
            apply_step(k, members_for(k), tag="after-idle")
        else:
            plan_step(k, [line(members_for(k))], tag="after-idle")

    blocks = [block_across, block_across, block_flags, block_flags, block_refuse_reuse, block_chain, block_files, block_idle]
    chosen = [block_across, block_flags] + [rng.choice(blocks) for _ in range(rng.randint(2, 4))]
    rng.shuffle(chosen)
    for b in chosen:
        if len(steps) >= 22:
            break
        b()
    return {"kind": "sequence", "domains": sw["domains"],
            "problems": [{"domain": c["domain"], "text": c["problem_text"]} for c in ctxs],
            "contexts": [{"domain": c["domain"], "objects": c["objects"], "state": c["state"]} for c in ctxs],
            "exporters": exporters, "steps": steps, "features": sw["features"], "blocks": [b.__name__[6:] for b in chosen]}


def job_of(seq):
    return {"op": "c16.sequence", "domains": seq["domains"], "problems": seq["problems"], "exporters": seq["exporters"],
            "steps": [{k: v for k, v in s.items() if k != "tag"} for s in seq["steps"]]}


def expand(seq, res):
    """the steps of a sequence as (pseudo case, pseudo result, judge the plan unit?, step index)"""
    out = []
    if "steps_out" not in res:
        return out
    nums = dict(res.get("nums", {}))
    for o in res["steps_out"]:
        for k, v in o.get("nums", {}).items():
            nums.setdefault(k, v)
    for i, (st, o) in enumerate(zip(seq["steps"], res["steps_out"])):
        if "skipped" in o:
            continue
        ctx = seq["contexts"][st["problem"]]
        base = {"domain_text": seq["domains"][ctx["domain"]], "objects": ctx["objects"], "features": seq.get("features", []),
                "strict": True, "kind": "sequence:" + st["kind"]}
        if st["kind"] == "apply":
            init = ctx["state"] if st["state"] == "init" else o["state_in"]
            c = dict(base, init=init, base=[m for m in st["members"] if m[0] != "nop"],
                     runs=[{"members": st["members"], "allow": st["allow"], "tag": st.get("tag", "")}], lines=[], allow=False,
                     exporter_allow=False)
            r = {"nums": nums, "runs": [o["run"]], "vocab": True}
            out.append((c, r, False, i))
        else:
            c = dict(base, init=ctx["state"], base=[], runs=[], lines=o.get("lines", []), allow=st["allow"],
                     exporter_allow=seq["exporters"][st["exporter"]]["allow"])
            r = {"nums": nums, "runs": [], "lines": o.get("lines", []), "plan_intact": o.get("intact", True), "vocab": True}
            for key in ("steps", "trace_raised", "export", "export_raised"):
                if key in o:
                    r[key] = o[key]
            out.append((c, r, True, i))
    return out
