"""Implementation driver for C12 (numerical_expression.py through the package's public functions).
Floats cross as float.hex() text."""
from pddl_plus_parser.lisp_parsers import PDDLTokenizer
from pddl_plus_parser.models import (PDDLFunction, PDDLType, NumericalExpressionTree, construct_expression_tree,
                                     calculate, evaluate_expression)
from pddl_plus_parser.models import numerical_expression as NE
from pddl_plus_parser.models.numerical_expression import set_expression_value

OBJ = PDDLType("object")


def fhex(x):
    x = float(x)
    if x != x:
        return "nan"
    return x.hex()


def config(job):
    """the module constants as the implementation sees them under this process' environment"""
    import os
    return {"eps": fhex(NE.EPSILON), "digits": NE.DEFAULT_DIGITS,
            "env": {k: os.environ.get(k) for k in ("EPSILON", "NUMERIC_PRECISION")}}


def atoms(ast, out):
    if isinstance(ast, str):
        out.append(ast)
    else:
        for x in ast:
            atoms(x, out)


def numerals(ast, table):
    toks = []
    atoms(ast, toks)
    for t in toks:
        if t not in table:
            try:
                table[t] = fhex(float(t))
            except ValueError:
                pass


def mk_funcs(spec):
    return {name: PDDLFunction(name=name, signature={p: OBJ for p in params}) for name, params in spec}


def mk_state(entries):
    st = {}
    for name, args, hx in entries:
        f = PDDLFunction(name=name, signature={a: OBJ for a in args})
        f.set_value(float("nan") if hx == "nan" else float.fromhex(hx))
        st[f.untyped_representation] = f
    return st


def attempt(fn):
    try:
        return {"ok": fn()}
    except RecursionError:
        raise
    except Exception as e:  # noqa
        return {"raised": type(e).__name__}


def run_case(job):
    """text -> tokens -> construct_expression_tree -> (set_expression_value; to_pddl; calculate; evaluate_expression)
    and the printed text read back by the library."""
    out = {"eps": fhex(NE.EPSILON), "digits": NE.DEFAULT_DIGITS, "nums": {}}
    ast = PDDLTokenizer(pddl_str=job["text"]).parse()
    numerals(ast, out["nums"])
    funcs = mk_funcs(job["funcs"])
    try:
        root = construct_expression_tree(ast, funcs)
    except RecursionError:
        raise
    except Exception as e:  # noqa
        out["construct"] = {"raised": type(e).__name__}
        return out
    return observe(job, root, job["state"], out)


def run_sequence(job):
    """ONE expression tree evaluated on several states one after the other (the way an Operator object is re-used):
    every evaluation must depend on the state it is given only.  Returns one result per state."""
    base = {"eps": fhex(NE.EPSILON), "digits": NE.DEFAULT_DIGITS, "nums": {}}
    ast = PDDLTokenizer(pddl_str=job["text"]).parse()
    numerals(ast, base["nums"])
    try:
        root = construct_expression_tree(ast, mk_funcs(job["funcs"]))
    except RecursionError:
        raise
    except Exception as e:  # noqa
        return [dict(base, construct={"raised": type(e).__name__}) for _ in job["states"]]
    return [observe(job, root, st, dict(base, nums=dict(base["nums"]))) for st in job["states"]]


def observe(job, root, state_entries, out):
    out["construct"] = {"ok": True}
    tree = NumericalExpressionTree(root)
    state = mk_state(state_entries)
    set_expression_value(root, state)
    out["pddl"] = tree.to_pddl()
    out["calc"] = attempt(lambda: fhex(calculate(root)))
    # evaluate_expression updates the target fluent in place: give it fresh values first, as the library does
    set_expression_value(root, state)

    def ev():
        r = evaluate_expression(root)
        if isinstance(r, PDDLFunction):
            return {"assign": r.untyped_representation, "value": fhex(r.value)}
        if isinstance(r, bool):
            return {"bool": r}
        raise TypeError("unexpected result %r" % (r,))
    out["eval"] = attempt(ev)
    # print / re-read
    def reread():
        ast2 = PDDLTokenizer(pddl_str=out["pddl"]).parse()
        numerals(ast2, out["nums"])
        root2 = construct_expression_tree(ast2, mk_funcs(job["funcs"]))
        set_expression_value(root2, mk_state(state_entries))
        return {"pddl": NumericalExpressionTree(root2).to_pddl(), "calc": attempt(lambda: fhex(calculate(root2)))}
    out["re"] = attempt(reread)
    return out
