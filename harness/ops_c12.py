"""Implementation driver for C12 (numerical_expression.py through the package's public functions).
Floats cross as float.hex() text."""
from pddl_plus_parser.lisp_parsers import PDDLTokenizer
from pddl_plus_parser.models import (PDDLFunction, PDDLType, NumericalExpressionTree, construct_expression_tree,
                                     calculate, evaluate_expression)
from pddl_plus_parser.models import numerical_expression as NE
from pddl_plus_parser.models.numerical_expression import set_expression_value

OBJ = PDDLType("object")


def fhex(x):
    x = float(x)
    if x != x:
        return "nan"
    return x.hex()


def config(job):
    """the module constants as the implementation sees them under this process' environment"""
    import os
    return {"eps": fhex(NE.EPSILON), "digits": NE.DEFAULT_DIGITS,
            "env": {k: os.environ.get(k) for k in ("EPSILON", "NUMERIC_PRECISION")}}


def atoms(ast, out):
    if isinstance(ast, str):
        out.append(ast)
    else:
        for x in ast:
            atoms(x, out)


def numerals(ast, table):
    toks = []
    atoms(ast, toks)
    for t in toks:
        if t not in table:
            try:
                table[t] = fhex(float(t))
            except ValueError:
                pass


def mk_funcs(spec):
    return {name: PDDLFunction(name=name, signature={p: OBJ for p in params}) for name, params in spec}


def mk_state(entries):
    st = {}
    for name, args, hx in entries:
        f = PDDLFunction(name=name, signature={a: OBJ for a in args})
        f.set_value(float("nan") if hx == "nan" else float.fromhex(hx))
        st[f.untyped_representation] = f
    return st


def attempt(fn):
    try:
        return {"ok": fn()}
    except RecursionError:
        raise
    except Exception as e:  # noqa
        return {"raised": type(e).__name__}


def run_case(job):
    """text -> tokens -> construct_expression_tree -> (set_expression_value; to_pddl; calculate; evaluate_expression)
    and the printed text read back by the library."""
    out = {"eps": fhex(NE.EPSILON), "digits": NE.DEFAULT_DIGITS, "nums": {}}
    ast = PDDLTokenizer(pddl_str=job["text"]).parse()
    numerals(ast, out["nums"])
    funcs = mk_funcs(job["funcs"])
    try:
        root = construct_expression_tree(ast, funcs)
    except RecursionError:
        raise
    except Exception as e:  # noqa
        out["construct"] = {"raised": type(e).__name__}
        return out
    return observe(job, root, job["state"], out)


def run_sequence(job):
    """ONE expression tree evaluated on several states one after the other (the way an Operator object is re-used):
    every evaluation must depend on the state it is given only.  Returns one result per state."""
    base = {"eps": fhex(NE.EPSILON), "digits": NE.DEFAULT_DIGITS, "nums": {}}
    ast = PDDLTokenizer(pddl_str=job["text"]).parse()
    numerals(ast, base["nums"])
    try:
        root = construct_expression_tree(ast, mk_funcs(job["funcs"]))
    except RecursionError:
        raise
    except Exception as e:  # noqa
        return [dict(base, construct={"raised": type(e).__name__}) for _ in job["states"]]
    return [observe(job, root, st, dict(base, nums=dict(base["nums"]))) for st in job["states"]]


def observe(job, root, state_entries, out):
    out["construct"] = {"ok": True}
    tree = NumericalExpressionTree(root)
    state = mk_state(state_entries)
    set_expression_value(root, state)
    out["pddl"] = tree.to_pddl()
    out["calc"] = attempt(lambda: fhex(calculate(root)))
    # evaluate_expression updates the target fluent in place: give it fresh values first, as the library does
    set_expression_value(root, state)

    def ev():
        r = evaluate_expression(root)
        if isinstance(r, PDDLFunction):
            return {"assign": r.untyped_representation, "value": fhex(r.value)}
        if isinstance(r, bool):
            return {"bool": r}
        raise TypeError("unexpected result %r" % (r,))
    out["eval"] = attempt(ev)
    # print / re-read
    def reread():
        ast2 = PDDLTokenizer(pddl_str=out["pddl"]).parse()
        numerals(ast2, out["nums"])
        root2 = construct_expression_tree(ast2, mk_funcs(job["funcs"]))
        set_expression_value(root2, mk_state(state_entries))
        return {"pddl": NumericalExpressionTree(root2).to_pddl(), "calc": attempt(lambda: fhex(calculate(root2)))}
    out["re"] = attempt(reread)
    return out


# ---------------------------------------------------------------------------------------------------------------
# actions with SEVERAL numeric effects (one Operator, forced orders of the effect groups and of the numeric effects
# inside every group, the same Operator applied again to its own successor)
# ---------------------------------------------------------------------------------------------------------------
def _fluent_rows(state):
    rows = []
    for key, f in state.state_fluents.items():
        if key != f.untyped_representation:
            raise ValueError("state key %r holds the fluent %r" % (key, f.untyped_representation))
        rows.append([f.name, list(f.signature), fhex(f.value)])
    return rows


def _observe_state(state):
    import ops_core
    facts = ops_core.read_state_text(state.serialize())["facts"]
    return {"facts": facts, "fluents": _fluent_rows(state)}


def actions_world(job):
    """job: domain_text, problem_text (objects; every fluent initialised), probes [{action, args, facts [[p, args]],
    fluents [[name, args, hex]], group_seed, num_orders [[...] per group, by sorted text of the effect] | None, steps}].
    Every probe: ONE Operator object; is_applicable and apply on the state, then (steps - 1 times) apply again on the
    successor it returned.  Returns for every step the state it was given and what apply returned."""
    import random
    import ops_core
    from pddl_plus_parser.lisp_parsers import DomainParser, ProblemParser
    from pddl_plus_parser.models import Operator, State

    out = {"nums": ops_core.number_table(job["domain_text"]), "eps": fhex(NE.EPSILON)}
    dpath = ops_core.write_tmp(job["domain_text"], ".pddl")
    ppath = ops_core.write_tmp(job["problem_text"], ".pddl")
    try:
        try:
            domain = DomainParser(dpath).parse_domain()
            out["vocab"] = ops_core.vocab(domain)
        except Exception as e:  # noqa
            out["parse_raised"] = ops_core.exc(e)
            return out
        problem = ProblemParser(ppath, domain).parse_problem()
        template_facts = problem.initial_state_predicates
        template_fluents = problem.initial_state_fluents
        res = []
        for pr in job["probes"]:
            res.append(_run_action_probe(domain, problem, template_facts, template_fluents, pr))
        out["probes"] = res
        return out
    finally:
        dpath.unlink()
        ppath.unlink()


def _mk_state(domain, problem, template_facts, template_fluents, facts, fluents):
    """a State holding exactly the given facts and fluent values (values bit-exact, from hex); the objects are copies of
    those the problem parser made for a problem whose :init lists every ground fact and fluent"""
    from pddl_plus_parser.models import State
    wanted = {"(%s %s)" % (name, " ".join(args)) for name, args in facts}
    preds, found = {}, set()
    for key, group in template_facts.items():
        keep = {p.copy() for p in group if p.untyped_representation in wanted}
        found |= {p.untyped_representation for p in keep}
        if keep:
            preds[key] = keep
    if found != wanted:
        raise KeyError("facts not in the template problem: %r" % sorted(wanted - found))
    fl = {}
    for name, args, hx in fluents:
        key = "(%s %s)" % (name, " ".join(args))
        f = template_fluents[key].copy()
        f.set_value(float.fromhex(hx))
        fl[key] = f
    return State(preds, fl, is_init=False)


def _run_action_probe(domain, problem, template_facts, template_fluents, pr):
    import random
    import ops_core
    from pddl_plus_parser.models import Operator
    steps = []
    try:
        state = _mk_state(domain, problem, template_facts, template_fluents, pr["facts"], pr["fluents"])
        op = Operator(domain.actions[pr["action"]], domain, list(pr["args"]), problem.objects)
        op.ground()
        groups = list(op.grounded_effects)
        # canonical numbering of the groups: unconditional first, then by the text of their antecedents and effects
        def gkey(g):
            return (g.grounded_antecedents is not None,
                    sorted(e.to_pddl() for e in g.grounded_numeric_effects),
                    sorted(p.untyped_representation for p in g.grounded_discrete_effects))
        groups.sort(key=gkey)
        rnd = random.Random(pr.get("group_seed", 0))
        order = list(range(len(groups)))
        if pr.get("group_seed", 0):
            rnd.shuffle(order)
        univ = list(op.lifted_universal_effects)
        if pr.get("group_seed", 0):
            rnd.shuffle(univ)
        op.grounded_effects = ops_core.ForcedOrder([groups[i] for i in order])
        op.lifted_universal_effects = ops_core.ForcedOrder(univ)
        mode = pr.get("num_order")            # None: the library's own set order; "sorted" / "reversed" / int seed
        if mode is not None:
            for g in groups:
                effs = sorted(g.grounded_numeric_effects, key=lambda e: e.to_pddl())
                if mode == "reversed":
                    effs.reverse()
                elif mode != "sorted":
                    random.Random(mode).shuffle(effs)
                g.grounded_numeric_effects = ops_core.ForcedOrder(effs)
        ngroups, nuniv = len(groups), len(univ)
    except Exception as e:  # noqa
        return {"setup_raised": ops_core.exc(e)}
    for k in range(pr.get("steps", 1)):
        st = {"state": _observe_state(state)}
        try:
            st["app"] = {"value": bool(op.is_applicable(state))}
        except Exception as e:  # noqa
            st["app"] = ops_core.exc(e)
        before = _observe_state(state)
        try:
            nxt = op.apply(state)
            st["succ"] = {"value": _observe_state(nxt)}
        except Exception as e:  # noqa
            st["succ"] = ops_core.exc(e)
            nxt = None
        # the state handed in is still what it was (values and keys)
        st["input_unchanged"] = _observe_state(state) == before
        steps.append(st)
        if nxt is None:
            break
        state = nxt
    return {"steps": steps, "ngroups": ngroups, "nuniv": nuniv}
