"""Shared machinery of the /verif checks: paths, seeds, the implementation worker, Coq case files,
the decision rule, findings, replay files and evidence.

Runs under python3-vt or /venv/bin/python (standard library only).  The implementation (/repo) is
never imported here: it runs in `impl_worker.py` subprocesses with PYTHONPATH=/repo.
"""
import concurrent.futures
import hashlib
import json
import os
import random
import re
import shutil
import subprocess
import sys
import time
from pathlib import Path

ROOT = Path(__file__).resolve().parent.parent
COQ = ROOT / "coq"
# VERIF_RUN_TAG=<tag> gives a run its own scratch and evidence directories (work/<tag>/...), so that a run against a
# scratch copy of the repository (VERIF_REPO) never disturbs the registered checks' files
RUN_TAG = os.environ.get("VERIF_RUN_TAG", "")
WORK = ROOT / "work" / RUN_TAG if RUN_TAG else ROOT / "work"
EVIDENCE_DIR = WORK / "evidence" if RUN_TAG else ROOT / "evidence"
REPO = Path(os.environ.get("VERIF_REPO", "/repo"))
IMPL_PY = "/venv/bin/python"
FINDINGS_FILE = ROOT / "known_findings.json"
def _ncpu():
    """Worker count: VERIF_NCPU if set, else the cores that are not already busy (load average), between 4 and 16 -
    several checks (or builders) running at once must not oversubscribe the machine; only parallelism depends on it."""
    if os.environ.get("VERIF_NCPU"):
        return max(1, int(os.environ["VERIF_NCPU"]))
    n = min(16, os.cpu_count() or 4)
    try:
        busy = int(os.getloadavg()[0])
    except OSError:
        busy = 0
    return max(4, min(n, n - busy))


NCPU = _ncpu()


# --------------------------------------------------------------------------------------------
# Coq literals
# --------------------------------------------------------------------------------------------
def esc(s: str) -> str:
    """Printable-ASCII encoding decoded by Corr.Common.unesc: '`HH' for every byte that is not a
    printable ASCII character other than '`' and '"'."""
    out = []
    for ch in s:
        o = ord(ch)
        if o > 255:
            raise ValueError("non-latin1 text cannot cross the boundary: %r" % ch)
        if 32 <= o < 127 and ch not in '`"':
            out.append(ch)
        else:
            out.append("`%02X" % o)
    return "".join(out)


def cstr(s: str) -> str:
    """A Coq string literal holding the escaped form of s."""
    return '"' + esc(s) + '"'


def clist(items) -> str:
    return "[" + "; ".join(items) + "]"


def cbool(b) -> str:
    return "true" if b else "false"


def cobs(value, render=cstr) -> str:
    """value is None for 'raised', otherwise the returned observable."""
    return "Raised" if value is None else "(Returned %s)" % render(value)


def copt(value, render=cstr) -> str:
    return "None" if value is None else "(Some %s)" % render(value)


def chex(x: float) -> str:
    """binary64 literal, bit exact (Coq parses hexadecimal float literals exactly)."""
    import math
    if math.isnan(x):
        return "nan%float"
    if math.isinf(x):
        return "infinity%float" if x > 0 else "neg_infinity%float"
    h = x.hex()  # e.g. -0x1.8000000000000p+1
    if h.startswith("-"):
        return "(-%s)%%float" % h[1:]
    return "%s%%float" % h


# --------------------------------------------------------------------------------------------
# Coq build / evaluation
# --------------------------------------------------------------------------------------------
class CoqBuildError(Exception):
    pass


def build_targets(prop: str):
    """The .vo files one check needs: its property file, its correspondence module(s) (those named in its driver)
    and the shared ones; make builds their dependencies.  Other properties' files are not touched."""
    mods = {"Corr/Common", "Corr/Core"}
    if (COQ / "Props" / (prop + ".v")).exists():
        mods.add("Props/" + prop)
    if (COQ / "Corr" / (prop + ".v")).exists():
        mods.add("Corr/" + prop)
    drv = ROOT / "harness" / "props" / (prop.lower() + ".py")
    if drv.exists():
        for m in re.findall(r"\b(Corr|Props|Proofs|Model|Spec)\.([A-Za-z_][\w']*)", drv.read_text()):
            if (COQ / m[0] / (m[1] + ".v")).exists():
                mods.add("%s/%s" % m)
    return sorted(m + ".vo" for m in mods)


def build_coq(prop: str = None) -> float:
    t0 = time.time()
    cmd = [str(ROOT / "tools" / "build_coq.sh")] + (build_targets(prop) if prop else [])
    r = subprocess.run(cmd, capture_output=True, text=True)
    if r.returncode != 0:
        raise CoqBuildError(r.stdout[-4000:] + r.stderr[-2000:])
    return time.time() - t0


def coqc(vfile: Path, timeout: int = 900) -> subprocess.CompletedProcess:
    cmd = "ulimit -s unlimited 2>/dev/null; ulimit -v 24000000 2>/dev/null; exec timeout %d coqc -q -Q %s Verif -w -all %s" % (
        timeout, COQ, vfile)
    return subprocess.run(["bash", "-c", cmd], capture_output=True, text=True, cwd=str(vfile.parent))


def clean_products(vfile: Path):
    for suf in (".vo", ".vok", ".vos", ".glob"):
        p = vfile.with_suffix(suf)
        if p.exists():
            p.unlink()
    aux = vfile.parent / ("." + vfile.stem + ".aux")
    if aux.exists():
        aux.unlink()


_RES = re.compile(r'=\s*"((?:[^"]|"")*)"\s*:\s*string', re.S)


def run_case_shards(prop: str, corr_module: str, case_lits, shard_size=200, run_fn="run",
                    header_extra="", max_bytes=120_000, units=None):
    """Writes shards of Coq case literals, evaluates `run_fn` on each with vm_compute, and returns
    the concatenated verdict string (one character per case) plus bookkeeping."""
    wdir = WORK / prop / "cases"
    if wdir.exists():
        shutil.rmtree(wdir)
    wdir.mkdir(parents=True)
    units = list(units) if units is not None else [1] * len(case_lits)
    shards, shard_units, cur, cur_bytes, cur_units = [], [], [], 0, 0
    for lit, u in zip(case_lits, units):
        if cur and (len(cur) >= shard_size or cur_bytes + len(lit) > max_bytes):
            shards.append(cur)
            shard_units.append(cur_units)
            cur, cur_bytes, cur_units = [], 0, 0
        cur.append(lit)
        cur_bytes += len(lit)
        cur_units += u
    if cur:
        shards.append(cur)
        shard_units.append(cur_units)
    files = []
    for k, sh in enumerate(shards):
        f = wdir / ("cases_%03d.v" % k)
        with open(f, "w") as fh:
            fh.write("From Coq Require Import List String Ascii ZArith.\n")
            fh.write("From Verif Require Import Base.Result Base.Sexp Corr.Common %s.\n" % corr_module)
            fh.write("Import ListNotations.\nOpen Scope string_scope.\nOpen Scope list_scope.\n")
            fh.write(header_extra)
            fh.write("Definition cases := [\n  " + ";\n  ".join(sh) + "\n].\n")
            fh.write("Eval vm_compute in (%s cases).\n" % run_fn)
        files.append(f)

    def one(f):
        r = coqc(f)
        clean_products(f)
        return f, r

    verdicts, errors = [], []
    with concurrent.futures.ThreadPoolExecutor(max_workers=NCPU) as ex:
        for (f, r), nunits in zip(ex.map(one, files), shard_units):
            m = _RES.search(r.stdout)
            if r.returncode != 0 or not m:
                errors.append({"file": str(f), "rc": r.returncode, "out": (r.stdout + r.stderr)[-1500:]})
                verdicts.append("?" * nunits)
            else:
                v = re.sub(r"\s", "", m.group(1))
                if len(v) != nunits:
                    errors.append({"file": str(f), "rc": 0, "out": "verdict length %d != %d" % (len(v), nunits)})
                    v = "?" * nunits
                verdicts.append(v)
    return "".join(verdicts), {"shards": len(shards), "shard_errors": errors,
                               "cmd": "coqc -q -Q %s Verif %s/cases_*.v  (Eval vm_compute in (%s cases))" % (COQ, wdir, run_fn)}


def coq_eval(prop: str, corr_module: str, expr: str, name="explain", header_extra="") -> str:
    """Evaluates one expression with vm_compute and returns Coq's raw answer (for replay files)."""
    wdir = WORK / prop / "explain"
    wdir.mkdir(parents=True, exist_ok=True)
    f = wdir / (name + ".v")
    with open(f, "w") as fh:
        fh.write("From Coq Require Import List String Ascii ZArith.\n")
        fh.write("From Verif Require Import Base.Result Base.Sexp Corr.Common %s.\n" % corr_module)
        fh.write("Import ListNotations.\nOpen Scope string_scope.\nOpen Scope list_scope.\n")
        fh.write(header_extra)
        fh.write("Eval vm_compute in (%s).\n" % expr)
    r = coqc(f, timeout=300)
    clean_products(f)
    return (r.stdout + r.stderr).strip()[-6000:]


# --------------------------------------------------------------------------------------------
# Proof obligations: forbidden tokens, dependency closure, Print Assumptions
# --------------------------------------------------------------------------------------------
FORBIDDEN = re.compile(
    r"\b(Admitted|admit|Axiom|Axioms|Parameter|Parameters|Conjecture|Conjectures|Admit Obligations|"
    r"Unset Guard Checking|Unset Positivity Checking|Unset Universe Checking|bypass_check|"
    r"type-in-type|impredicative-set|native_compute)\b")
ALLOWED_ASSUMPTIONS = {
    # PrimFloat / Uint63 primitives are reported by Print Assumptions as axioms of the kernel, not ours
    "float", "add", "sub", "mul", "div", "sqrt", "opp", "abs", "eqb", "ltb", "leb", "compare", "classify",
    "of_uint63", "normfr_mantissa", "frshiftexp", "ldshiftexp", "next_up", "next_down",
    "int", "lsl", "lsr", "land", "lor", "lxor", "addc", "subc", "mulc", "diveucl", "of_Z", "to_Z",
}


def strip_comments(src: str) -> str:
    out, depth, i = [], 0, 0
    while i < len(src):
        if src.startswith("(*", i):
            depth += 1
            i += 2
        elif src.startswith("*)", i) and depth > 0:
            depth -= 1
            i += 2
        else:
            if depth == 0:
                out.append(src[i])
            i += 1
    return "".join(out)


def dep_closure(prop_module: str):
    """Files of the development that Props/<prop>.v depends on (transitively), by their Require lines."""
    seen, todo = [], [prop_module]
    while todo:
        m = todo.pop()
        if m in seen:
            continue
        p = COQ / (m.replace(".", "/") + ".v")
        if not p.exists():
            continue
        seen.append(m)
        src = strip_comments(p.read_text())
        for line in re.findall(r"From\s+Verif\s+Require\s+(?:Import|Export)\s+((?:[A-Za-z_][\w']*(?:\.[A-Za-z_][\w']*)*\s*)+)\.", src):
            for mod in line.split():
                todo.append(mod)
    return seen


def proof_obligations(prop: str):
    """Counts Qed-closed statements in the dependency closure of Props/<prop>.v, checks that the
    .vo files are up to date (built by this run's make), greps for forbidden tokens and runs
    Print Assumptions on every theorem of the property file.  Returns a dict."""
    mods = dep_closure("Props." + prop)
    qeds, bad_tokens, stale = 0, [], []
    for m in mods:
        p = COQ / (m.replace(".", "/") + ".v")
        src = strip_comments(p.read_text())
        qeds += len(re.findall(r"\bQed\s*\.", src))
        for t in FORBIDDEN.findall(src):
            bad_tokens.append("%s: %s" % (m, t))
        # Variable/Hypothesis only inside a Section
        depth = 0
        for tok in re.finditer(r"\b(Section|End|Variable|Variables|Hypothesis|Hypotheses|Context)\b", src):
            w = tok.group(1)
            if w == "Section":
                depth += 1
            elif w == "End":
                depth = max(0, depth - 1)
            elif depth == 0:
                bad_tokens.append("%s: %s outside a Section" % (m, w))
        vo = p.with_suffix(".vo")
        if not vo.exists() or vo.stat().st_mtime < p.stat().st_mtime:
            stale.append(m)
    propfile = COQ / "Props" / (prop + ".v")
    thms = re.findall(r"^\s*(?:Theorem|Lemma|Corollary)\s+([\w']+)", strip_comments(propfile.read_text()), re.M)
    wdir = WORK / prop
    wdir.mkdir(parents=True, exist_ok=True)
    f = wdir / "assumptions.v"
    with open(f, "w") as fh:
        fh.write("From Verif Require Import Props.%s.\n" % prop)
        for t in thms:
            fh.write('Print Assumptions %s.\n' % t)
    r = coqc(f, timeout=600)
    clean_products(f)
    out = r.stdout
    chunks = re.split(r"(?=Closed under the global context|Axioms:)", out)
    chunks = [c for c in chunks if c.strip()]
    closed, axioms, bad_axioms = 0, set(), []
    for c in chunks:
        if c.startswith("Closed under"):
            closed += 1
        elif c.startswith("Axioms:"):
            names = re.findall(r"^([\w'.]+)\s*:", c[len("Axioms:"):], re.M)
            for n in names:
                axioms.add(n)
                if n.split(".")[-1] not in ALLOWED_ASSUMPTIONS:
                    bad_axioms.append(n)
    pa_ok = (r.returncode == 0 and len(chunks) == len(thms) and not bad_axioms)
    return {
        "modules": mods, "qed": qeds, "theorems": thms, "print_assumptions_ok": pa_ok,
        "closed": closed, "axioms": sorted(axioms), "bad_axioms": bad_axioms,
        "bad_tokens": bad_tokens, "stale": stale,
        "pa_cmd": "coqc -q -Q %s Verif %s" % (COQ, f),
        "pa_raw": out[-1500:] if not pa_ok else "",
    }


# --------------------------------------------------------------------------------------------
# Implementation worker
# --------------------------------------------------------------------------------------------
def run_impl(jobs, hashseed=0, env_extra=None, timeout=1800, nproc=None):
    """Runs jobs (JSON-serialisable dicts with an 'op' key) on the implementation in worker
    subprocesses; returns the list of results in order."""
    if not jobs:
        return []
    nproc = nproc or min(NCPU, max(1, len(jobs) // 40))
    chunks = [jobs[i::nproc] for i in range(nproc)]
    env = dict(os.environ)
    env.update({"PYTHONPATH": str(REPO), "PYTHONHASHSEED": str(hashseed), "PYTHONDONTWRITEBYTECODE": "1",
                "VERIF_WORK": str(WORK)})
    env.pop("PDDL_PLUS_PARSER_VERIF", None)
    if env_extra:
        env.update(env_extra)

    def one(chunk):
        p = subprocess.run([IMPL_PY, str(ROOT / "harness" / "impl_worker.py")], input=json.dumps(chunk),
                           capture_output=True, text=True, env=env, timeout=timeout, cwd=str(WORK))
        if p.returncode != 0:
            raise RuntimeError("implementation worker failed: " + p.stderr[-3000:])
        return json.loads(p.stdout)

    WORK.mkdir(parents=True, exist_ok=True)
    with concurrent.futures.ThreadPoolExecutor(max_workers=nproc) as ex:
        outs = list(ex.map(one, chunks))
    res = [None] * len(jobs)
    for k, out in enumerate(outs):
        for j, r in enumerate(out):
            res[k + j * nproc] = r
    return res


# --------------------------------------------------------------------------------------------
# Findings, replay files, evidence, exit protocol
# --------------------------------------------------------------------------------------------
def load_findings(prop: str):
    if not FINDINGS_FILE.exists():
        return []
    data = json.loads(FINDINGS_FILE.read_text())
    return [f for f in data.get("findings", []) if f.get("property") == prop]


def write_replay(prop: str, name: str, payload: dict) -> Path:
    d = WORK / prop / "replays"
    d.mkdir(parents=True, exist_ok=True)
    p = d / (name + ".json")
    payload = dict(payload)
    payload.setdefault("property", prop)
    payload.setdefault("replay_cmd", "./check %s --replay %s" % (prop, p))
    p.write_text(json.dumps(payload, indent=1, default=str))
    return p


def case_hash(obj) -> str:
    return hashlib.sha1(json.dumps(obj, sort_keys=True, default=str).encode()).hexdigest()[:16]


class Report:
    """Collects what a check run did, applies the decision rule, writes evidence, prints the
    protocol lines and computes the exit status."""

    def __init__(self, prop: str, tier: str, seed: int, level="proof"):
        self.prop, self.tier, self.seed, self.level = prop, tier, seed, level
        self.t0 = time.time()
        self.violations = []      # (replay_path, no_failing_input_found)
        self.known_lines = []
        self.coverage = {"evaluations": 0, "distinct_nontrivial": 0, "samples": [],
                         "traces_validated_against_impl": 0}
        self.assumptions = []
        self.notes = []
        if os.environ.get("VERIF_ESCALATED") == "1":
            self.notes.append("second quick run with another seed: the library source differs from source_fingerprint.json and the first run found nothing")

    def known(self, what: str):
        line = "KNOWN-FINDING: property=%s %s" % (self.prop, what)
        if line not in self.known_lines:
            self.known_lines.append(line)

    def violation(self, replay: Path, concrete: bool):
        self.violations.append((replay, concrete))

    def finish(self) -> int:
        for l in self.known_lines:
            print(l)
        for replay, concrete in self.violations[:20]:
            print("VIOLATION property=%s replay=%s%s" % (self.prop, replay, "" if concrete else " no-failing-input-found"))
        ev = {
            "property_id": self.prop, "tier": self.tier, "seed": self.seed, "level": self.level,
            "coverage": self.coverage, "assumptions": self.assumptions,
            "wall_s": round(time.time() - self.t0, 2), "violations": len(self.violations),
        }
        if self.notes:
            ev["notes"] = self.notes
        EVIDENCE_DIR.mkdir(parents=True, exist_ok=True)
        (EVIDENCE_DIR / (self.prop + ".json")).write_text(json.dumps(ev, indent=1, default=str))
        sys.stdout.flush()
        return 1 if self.violations else 0


TRUSTED_BASE_COMMON = [
    "Coq 8.16.1 kernel and its VM (vm_compute), used in proofs by reflection and to evaluate the generated case files; no native_compute, no extraction",
    "no axioms declared in the development; Print Assumptions output checked on every run (see coverage.print_assumptions)",
    "hand-written Gallina model of the Python modules (modelled, not verified); tied to /repo only by the correspondence on the cases of this run",
    "the Python harness: generators, renderers, implementation worker, Coq literal emitter, canonicalisers",
    "CPython 3.12.1 semantics of str/dict/set/float as encoded in the model (DESIGN.md appendix A)",
]


def standard_proof_part(rep: Report, prop: str):
    """Build + proof obligations; fills coverage; returns True when all proof obligations hold.
    On failure records a violation (no concrete input; the caller may add concrete ones)."""
    cov = rep.coverage
    try:
        bt = build_coq(prop)
        cov["coq_build_s"] = round(bt, 1)
        built = True
    except CoqBuildError as e:
        built = False
        p = write_replay(prop, "proof_build_failed", {"kind": "proof-obligation", "what": "coq build failed", "log": str(e)})
        rep.violation(p, False)
    if built and not (COQ / "Props" / (prop + ".v")).exists():
        p = write_replay(prop, "no_property_file", {"kind": "proof-obligation", "what": "coq/Props/%s.v does not exist" % prop})
        rep.violation(p, False)
        built = False
    po = proof_obligations(prop) if built else None
    ok = built
    if po:
        n_ob = po["qed"] + len(po["theorems"])
        ok_pa = po["print_assumptions_ok"] and not po["bad_tokens"] and not po["stale"]
        cov["obligations"] = n_ob
        cov["discharged"] = n_ob if ok_pa else po["qed"]
        cov["theorems"] = po["theorems"]
        cov["print_assumptions"] = {"closed_under_global_context": po["closed"], "axioms": po["axioms"]}
        cov["proof_modules"] = po["modules"]
        cov["checker_cmd"] = "tools/build_coq.sh (coq_makefile + make, full .vo build) ; " + po["pa_cmd"]
        if not ok_pa:
            ok = False
            p = write_replay(prop, "proof_assumptions_failed", {"kind": "proof-obligation", "detail": po})
            rep.violation(p, False)
    else:
        cov["obligations"] = 1
        cov["discharged"] = 0
        cov["checker_cmd"] = "tools/build_coq.sh"
    cov["trusted_base"] = list(TRUSTED_BASE_COMMON)
    return ok


def add_shard_obligations(rep: Report, info: dict):
    cov = rep.coverage
    n = info["shards"]
    bad = len(info["shard_errors"])
    cov["obligations"] = cov.get("obligations", 0) + n
    cov["discharged"] = cov.get("discharged", 0) + (n - bad)
    cov["correspondence_shards"] = n
    cov["checker_cmd"] = cov.get("checker_cmd", "") + " ; " + info["cmd"]


def parse_args(argv):
    import argparse
    ap = argparse.ArgumentParser()
    ap.add_argument("prop")
    ap.add_argument("--tier", default=os.environ.get("VERIF_TIER", "quick"), choices=["quick", "thorough"])
    ap.add_argument("--seed", type=int, default=int(os.environ.get("VERIF_SEED", "0") or 0))
    ap.add_argument("--replay", default=None)
    return ap.parse_args(argv)


# --------------------------------------------------------------------------------------------
# The decision rule (DESIGN.md section 4.4) applied to a verdict string
# --------------------------------------------------------------------------------------------
def decide(rep: Report, prop: str, corr_module: str, cases, verdicts: str, info: dict,
           explain_expr=None, header_extra="", default_class=None, max_replays=8):
    """cases: list of dicts with keys
         lit        Coq literal of the case (as evaluated)
         input      JSON-serialisable description of the input and of what the implementation returned
         nontrivial bool, by the property's own rule
         witness_of optional finding id: this case is the recorded witness of that finding
         klass      optional finding id the Python-side classifier assigns to the input
       verdicts: one character per case, see Corr.Common.verdict_char."""
    cov = rep.coverage
    add_shard_obligations(rep, info)
    findings = {f["id"]: f for f in load_findings(prop)}
    open_ids = [i for i, f in findings.items() if f.get("status") == "open"]
    counts = {}
    for ch in verdicts:
        counts[ch] = counts.get(ch, 0) + 1
    cov["verdict_counts"] = counts
    cov["evaluations"] = cov.get("evaluations", 0) + len(cases)
    seen = set()
    for c in cases:
        if c.get("nontrivial"):
            seen.add(case_hash(c["input"]))
    cov["distinct_nontrivial"] = len(seen)
    cov["traces_validated_against_impl"] = cov.get("traces_validated_against_impl", 0) + counts.get(".", 0) + counts.get("k", 0)
    concrete, soft, reproduced = [], [], {}
    for i, (c, ch) in enumerate(zip(cases, verdicts)):
        if ch == ".":
            continue
        if ch == "k":
            fid = c.get("witness_of") or c.get("klass") or default_class or (open_ids[0] if len(open_ids) == 1 else None)
            if fid in findings and findings[fid].get("status") == "open":
                reproduced.setdefault(fid, c)
                continue
            concrete.append((i, c, "not-ok in an unlisted class (%s)" % fid))
        elif ch in "oA":
            concrete.append((i, c, {"o": "model agrees with the implementation, the spec does not: unlisted violation",
                                   "A": "implementation differs from the model and violates the spec"}[ch]))
        elif ch in "aK?":
            soft.append((i, c, {"a": "correspondence broken: implementation differs from the model (its answer satisfies the spec oracle)",
                                "K": "correspondence broken inside a listed finding class: implementation differs from the model and from the spec",
                                "?": "correspondence shard failed to evaluate"}[ch]))
        else:
            soft.append((i, c, "unknown verdict %r" % ch))
    # fixed findings must not reproduce; open findings print KNOWN-FINDING when reproduced
    for fid, f in findings.items():
        if f.get("status") == "open" and fid in reproduced:
            rep.known("%s: %s" % (fid, f.get("what", "")))
    def mk(i, c, why, concrete_flag):
        payload = {"kind": "input" if concrete_flag else "correspondence", "why": why, "case_index": i,
                   "input": c["input"], "coq_case": c["lit"][:4000], "corr_module": corr_module}
        if explain_expr:
            try:
                payload["coq_explain"] = coq_eval(prop, corr_module, explain_expr % c["lit"], name="explain_%d" % i,
                                                  header_extra=header_extra)
            except Exception as e:  # noqa
                payload["coq_explain"] = "explain failed: %s" % e
        return write_replay(prop, "case_%05d" % i, payload)
    for i, c, why in concrete[:max_replays]:
        rep.violation(mk(i, c, why, True), True)
    if not concrete:
        for i, c, why in soft[:max_replays]:
            rep.violation(mk(i, c, why + "; searched all %d cases of this run for a failing input, none found" % len(cases), False), False)
    else:
        cov["soft_disagreements_not_reported_separately"] = len(soft)
    if info["shard_errors"] and not concrete and not soft:
        p = write_replay(prop, "shard_errors", {"kind": "correspondence", "errors": info["shard_errors"]})
        rep.violation(p, False)
    return {"concrete": len(concrete), "soft": len(soft), "reproduced": sorted(reproduced)}
