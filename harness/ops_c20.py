"""Implementation driver for C20: what Operator.ground() reports for an action call.

Observables (all through the public objects, nothing is patched):
  * iteration over op.grounded_preconditions: every yielded literal (GroundedPredicate, or the lifted Predicate the
    library keeps inside a quantified condition) with name, polarity, arguments, type names, untyped and typed text;
    every yielded numeric expression as a tree (function leaves by name + signature keys, numbers as hex floats);
  * the grounded (in)equality pairs of the root and of every nested grounded condition;
  * every element of op.grounded_effects: antecedent (same walk), grounded_discrete_effects, grounded_numeric_effects;
  * op.typed_action_call with and without problem objects, str(op)."""
from pathlib import Path

from pddl_plus_parser.lisp_parsers import DomainParser, ProblemParser
from pddl_plus_parser.models import Operator, PDDLFunction
from pddl_plus_parser.models.pddl_precondition import Precondition, UniversalPrecondition
from pddl_plus_parser.models.pddl_predicate import GroundedPredicate, Predicate
from pddl_plus_parser.models.numerical_expression import NumericalExpressionTree

from ops_core import write_tmp, exc, number_table, vocab


def lit_obs(c):
    grounded = isinstance(c, GroundedPredicate)
    args = list(c.object_mapping.values()) if grounded else list(c.signature.keys())
    return {"g": grounded, "pos": bool(c.is_positive), "name": c.name, "args": args,
            "types": [t.name for t in c.signature.values()], "u": c.untyped_representation, "t": str(c)}


def tree_obs(node):
    if node.is_leaf:
        if isinstance(node.value, PDDLFunction):
            return ["fn", node.value.name, list(node.value.signature.keys())]
        return ["num", float(node.value).hex()]
    return ["op", str(node.value), tree_obs(node.children[0]), tree_obs(node.children[1])]


def eq_pairs(cond):
    """(in)equality pairs of a grounded condition and of its nested grounded conditions (not of quantified ones)"""
    out = [[True, a, b] for a, b in cond.equality_preconditions] + [[False, a, b] for a, b in cond.inequality_preconditions]
    for o in cond.operands:
        if isinstance(o, Precondition) and not isinstance(o, UniversalPrecondition):
            out += eq_pairs(o)
    return out


def cond_obs(gp):
    """gp: GroundedPrecondition"""
    lits, nums = [], []
    for _, c in gp:
        if isinstance(c, Predicate):
            lits.append(lit_obs(c))
        elif isinstance(c, NumericalExpressionTree):
            nums.append(tree_obs(c.root))
        else:
            raise RuntimeError("unexpected item in the iteration: %r" % type(c))
    return {"lits": lits, "nums": nums, "eqs": eq_pairs(gp._grounded_precondition.root)}


def observe(domain, action, args, objects):
    op = Operator(action, domain, list(args), objects)
    op.ground()
    out = {"pre": cond_obs(op.grounded_preconditions), "groups": [], "str": str(op)}
    for e in op.grounded_effects:
        out["groups"].append({
            "ante": cond_obs(e.grounded_antecedents) if e.grounded_antecedents is not None else None,
            "disc": [lit_obs(x) for x in e.grounded_discrete_effects],
            "num": [tree_obs(x.root) for x in e.grounded_numeric_effects]})
    try:
        out["call"] = {"value": op.typed_action_call}
    except Exception as e:  # noqa
        out["call"] = exc(e)
    try:
        out["call_noobj"] = {"value": Operator(action, domain, list(args)).typed_action_call}
    except Exception as e:  # noqa
        out["call_noobj"] = exc(e)
    return out


def world(job):
    """job: domain_text, problem_text (objects only matter), probes [{action, args}]"""
    out = {"nums": number_table(job["domain_text"])}
    dpath = write_tmp(job["domain_text"], ".pddl")
    ppath = write_tmp(job["problem_text"], ".pddl")
    try:
        try:
            domain = DomainParser(dpath).parse_domain()
            out["vocab"] = vocab(domain)
        except Exception as e:  # noqa
            out["parse_raised"] = exc(e)
            return out
        try:
            problem = ProblemParser(ppath, domain).parse_problem()
        except Exception as e:  # noqa
            out["problem_raised"] = exc(e)
            return out
        res = []
        for pr in job["probes"]:
            action = domain.actions.get(pr["action"])
            if action is None:
                res.append(exc(KeyError(pr["action"])))
                continue
            try:
                res.append({"value": observe(domain, action, pr["args"], problem.objects)})
            except Exception as e:  # noqa
                res.append(exc(e))
        out["probes"] = res
        return out
    finally:
        dpath.unlink()
        ppath.unlink()
