"""Implementation driver for C20: what Operator.ground() reports for an action call.

Observables (all through the public objects, nothing is patched):
  * iteration over op.grounded_preconditions: every yielded literal (GroundedPredicate, or the lifted Predicate the
    library keeps inside a quantified condition) with name, polarity, arguments, type names, untyped and typed text;
    every yielded numeric expression as a tree (function leaves by name + signature keys, numbers as hex floats);
  * the grounded (in)equality pairs of the root and of every nested grounded condition;
  * every element of op.grounded_effects: antecedent (same walk), grounded_discrete_effects, grounded_numeric_effects;
  * op.typed_action_call with and without problem objects, str(op)."""
from pathlib import Path

from pddl_plus_parser.lisp_parsers import DomainParser, ProblemParser
from pddl_plus_parser.models import Operator, PDDLFunction
from pddl_plus_parser.models.pddl_precondition import Precondition, UniversalPrecondition
from pddl_plus_parser.models.pddl_predicate import GroundedPredicate, Predicate
from pddl_plus_parser.models.numerical_expression import NumericalExpressionTree

from ops_core import write_tmp, exc, number_table, vocab


def lit_obs(c):
    grounded = isinstance(c, GroundedPredicate)
    args = list(c.object_mapping.values()) if grounded else list(c.signature.keys())
    return {"g": grounded, "pos": bool(c.is_positive), "name": c.name, "args": args,
            "types": [t.name for t in c.signature.values()], "u": c.untyped_representation, "t": str(c)}


def tree_obs(node):
    if node.is_leaf:
        if isinstance(node.value, PDDLFunction):
            return ["fn", node.value.name, list(node.value.signature.keys())]
        return ["num", float(node.value).hex()]
    return ["op", str(node.value), tree_obs(node.children[0]), tree_obs(node.children[1])]


def eq_pairs(cond):
    """(in)equality pairs of a grounded condition and of its nested grounded conditions (not of quantified ones)"""
    out = [[True, a, b] for a, b in cond.equality_preconditions] + [[False, a, b] for a, b in cond.inequality_preconditions]
    for o in cond.operands:
        if isinstance(o, Precondition) and not isinstance(o, UniversalPrecondition):
            out += eq_pairs(o)
    return out


def cond_obs(gp):
    """gp: GroundedPrecondition"""
    lits, nums = [], []
    for _, c in gp:
        if isinstance(c, Predicate):
            lits.append(lit_obs(c))
        elif isinstance(c, NumericalExpressionTree):
            nums.append(tree_obs(c.root))
        else:
            raise RuntimeError("unexpected item in the iteration: %r" % type(c))
    return {"lits": lits, "nums": nums, "eqs": eq_pairs(gp._grounded_precondition.root)}


def observe(domain, action, args, objects):
    op = Operator(action, domain, list(args), objects)
    return observe_op(op, domain, action, args)


def observe_op(op, domain, action, args):
    """grounds [op] (again, if it was grounded before) and reports what it holds"""
    op.ground()
    out = {"pre": cond_obs(op.grounded_preconditions), "groups": [], "str": str(op)}
    for e in op.grounded_effects:
        out["groups"].append({
            "ante": cond_obs(e.grounded_antecedents) if e.grounded_antecedents is not None else None,
            "disc": [lit_obs(x) for x in e.grounded_discrete_effects],
            "num": [tree_obs(x.root) for x in e.grounded_numeric_effects]})
    try:
        out["call"] = {"value": op.typed_action_call}
    except Exception as e:  # noqa
        out["call"] = exc(e)
    try:
        out["call_noobj"] = {"value": Operator(action, domain, list(args)).typed_action_call}
    except Exception as e:  # noqa
        out["call_noobj"] = exc(e)
    return out


def world(job):
    """job: domain_text, problem_text (objects only matter), probes [{action, args}]"""
    out = {"nums": number_table(job["domain_text"])}
    dpath = write_tmp(job["domain_text"], ".pddl")
    ppath = write_tmp(job["problem_text"], ".pddl")
    try:
        try:
            domain = DomainParser(dpath).parse_domain()
            out["vocab"] = vocab(domain)
        except Exception as e:  # noqa
            out["parse_raised"] = exc(e)
            return out
        try:
            problem = ProblemParser(ppath, domain).parse_problem()
        except Exception as e:  # noqa
            out["problem_raised"] = exc(e)
            return out
        res = []
        for pr in job["probes"]:
            action = domain.actions.get(pr["action"])
            if action is None:
                res.append(exc(KeyError(pr["action"])))
                continue
            try:
                res.append({"value": observe(domain, action, pr["args"], problem.objects)})
            except Exception as e:  # noqa
                res.append(exc(e))
        out["probes"] = res
        return out
    finally:
        dpath.unlink()
        ppath.unlink()


# ---------------------------------------------------------------------------------------------------------------
# shipped fixtures: a domain/problem pair of the repository's own test data
def fixture(job):
    """job: domain, problem (paths relative to <repo>/tests), seed, ncalls (per action), nstates, want ('ground'|'app'|'both')"""
    import random
    import pddl_plus_parser
    from pddl_plus_parser.models import State
    from ops_core import read_state_text
    tests = Path(pddl_plus_parser.__file__).resolve().parent.parent / "tests"
    dpath, ppath = tests / job["domain"], tests / job["problem"]
    dtext = dpath.read_text()
    out = {"domain_text": dtext, "nums": number_table(dtext)}
    try:
        domain = DomainParser(dpath).parse_domain()
        out["vocab"] = vocab(domain)
        problem = ProblemParser(ppath, domain).parse_problem()
    except Exception as e:  # noqa
        out["parse_raised"] = exc(e)
        return out
    out["objects"] = [[n, o.type.name] for n, o in problem.objects.items()]
    universe = list(problem.objects.items()) + list(domain.constants.items())
    rng = random.Random(job["seed"])

    def fresh():
        return State({k: {p.copy() for p in v} for k, v in problem.initial_state_predicates.items()},
                     {k: v.copy() for k, v in problem.initial_state_fluents.items()}, is_init=True)
    states = [fresh()]
    for _ in range(max(0, job.get("nstates", 1) - 1)):
        st = fresh()
        for k in list(st.state_predicates):
            st.state_predicates[k] = {p for p in st.state_predicates[k] if rng.random() > 0.25}
        for f in st.state_fluents.values():
            if rng.random() < 0.5:
                f.set_value(rng.choice([0.0, 1.0, 2.0, 5.0, 10.0, 0.5]))
        states.append(st)
    out["states"] = [read_state_text(s.serialize()) for s in states]
    probes = []
    want = job.get("want", "both")
    for an, action in domain.actions.items():
        pools = [[n for n, o in universe if o.type.is_sub_type(pt)] for pt in action.signature.values()]
        if not all(pools) and pools:
            continue
        total = 1
        for p in pools:
            total *= len(p)
        if total <= 2000:
            import itertools
            tuples = [list(t) for t in itertools.product(*pools)]
            rng.shuffle(tuples)
        else:
            tuples = [[rng.choice(p) for p in pools] for _ in range(400)]
        chosen, n_true = [], 0
        if job.get("calls") is not None:
            chosen = [c["args"] for c in job["calls"] if c["action"] == an]
            tuples = []
        for t in tuples:
            if n_true >= max(1, job.get("ncalls", 0) // 2):
                break
            try:
                if Operator(action, domain, t, problem.objects).is_applicable(states[0]):
                    chosen.append(t)
                    n_true += 1
            except Exception:  # noqa
                pass
        for t in tuples:
            if len(chosen) >= job.get("ncalls", 0):
                break
            if t not in chosen:
                chosen.append(t)
        for t in chosen:
            pr = {"action": an, "args": t}
            if want in ("ground", "both"):
                try:
                    pr["obs"] = {"value": observe(domain, action, t, problem.objects)}
                except Exception as e:  # noqa
                    pr["obs"] = exc(e)
            if want in ("app", "both"):
                apps = []
                for st in states:
                    try:
                        apps.append({"value": bool(Operator(action, domain, t, problem.objects).is_applicable(st))})
                    except Exception as e:  # noqa
                        apps.append(exc(e))
                pr["apps"] = apps
            probes.append(pr)
    out["probes"] = probes
    return out


# ---------------------------------------------------------------------------------------------------------------
# wave 3: PROCESS-LEVEL SEQUENCES on one parsed Domain whose Action objects are reused and edited in place through the
# library's own API between groundings.  After every edit the action's CURRENT schema is re-dumped (dump_action below: the
# harness's own walk of the live object); the model and the spec ground THAT text.
def _mk_pred(domain, action, name, args, pos):
    from pddl_plus_parser.models import Predicate as P
    sig = {}
    for a in args:
        if a in domain.constants:
            sig[a] = domain.constants[a].type
        else:
            sig[a] = action.signature[a]
    return P(name=name, signature=sig, is_positive=bool(pos))


def _mk_tree(domain, tokens):
    from pddl_plus_parser.models import construct_expression_tree
    return NumericalExpressionTree(construct_expression_tree(tokens, domain.functions))


def _pick(items, key, seed):
    items = sorted(items, key=key)
    return items[seed % len(items)] if items else None


def apply_edit(domain, action, ed):
    """one in-place edit of the action's schema; returns a description, or None when there was nothing to edit"""
    kind = ed["edit"]
    root = action.preconditions.root
    if kind == "add_pre_lit":
        action.preconditions.add_condition(_mk_pred(domain, action, ed["name"], ed["args"], ed["pos"]))
        return kind
    if kind == "add_pre_group":
        g = Precondition(ed["op"])
        for name, args, pos in ed["lits"]:
            g.add_condition(_mk_pred(domain, action, name, args, pos))
        action.preconditions.add_condition(g)
        return kind
    if kind == "remove_pre_lit":
        c = _pick([o for o in root.operands if isinstance(o, Predicate)], lambda o: (o.untyped_representation, o.is_positive), ed["seed"])
        if c is None:
            return None
        action.preconditions.remove_condition(c.copy())          # (CompoundPrecondition.remove_condition returns nothing)
        return kind
    if kind == "add_pre_num":
        action.preconditions.add_condition(_mk_tree(domain, ed["tokens"]))
        return kind
    if kind == "remove_pre_num":
        c = _pick([o for o in root.operands if isinstance(o, NumericalExpressionTree)], lambda o: o.to_pddl(), ed["seed"])
        if c is None:
            return None
        action.preconditions.remove_condition(c)
        return kind
    if kind == "add_eff_lit":
        action.discrete_effects.add(_mk_pred(domain, action, ed["name"], ed["args"], ed["pos"]))
        return kind
    if kind == "discard_eff_lit":
        c = _pick(action.discrete_effects, lambda o: (o.untyped_representation, o.is_positive), ed["seed"])
        if c is None:
            return None
        action.discrete_effects.discard(c.copy())
        return kind
    if kind == "add_eff_num":
        action.numeric_effects.add(_mk_tree(domain, ed["tokens"]))
        return kind
    if kind == "discard_eff_num":
        c = _pick(action.numeric_effects, lambda o: o.to_pddl(), ed["seed"])
        if c is None:
            return None
        action.numeric_effects.discard(c)
        return kind
    if kind in ("when_add_ante", "when_add_eff"):
        ce = _pick(action.conditional_effects, str, ed["seed"])
        if ce is None:
            return None
        pred = _mk_pred(domain, action, ed["name"], ed["args"], ed["pos"])
        if kind == "when_add_ante":
            ce.antecedents.add_condition(pred)
        else:
            ce.discrete_effects.add(pred)
        return kind
    if kind == "rename":
        action.change_signature(dict(ed["map"]))
        return kind
    raise ValueError("unknown edit %r" % kind)


# The re-dump: the harness's OWN walk of the live Action object (not the library's exporter, which prints the numeric conditions of a
# connective through a set -- equal texts once -- and sorts / drops things: C08's subject).  Every operand of every connective is
# printed, once per object in the library's set, nested as it is stored; numbers as repr(float).
def dump_tree(node):
    if node.is_leaf:
        if isinstance(node.value, PDDLFunction):
            return "(%s)" % " ".join([node.value.name] + list(node.value.signature.keys()))
        return repr(float(node.value))
    return "(%s %s %s)" % (node.value, dump_tree(node.children[0]), dump_tree(node.children[1]))


def dump_lit(p):
    txt = "(%s)" % " ".join([p.name] + list(p.signature.keys()))
    return txt if p.is_positive else "(not %s)" % txt


def dump_cond(c):
    items = []
    for o in c.operands:
        if isinstance(o, UniversalPrecondition):
            items.append("(forall (%s - %s) %s)" % (o.quantified_parameter, o.quantified_type.name, dump_cond(o)))
        elif isinstance(o, Precondition):
            items.append(dump_cond(o))
        elif isinstance(o, Predicate):
            items.append(dump_lit(o))
        elif isinstance(o, NumericalExpressionTree):
            items.append(dump_tree(o.root))
        else:
            raise RuntimeError("unexpected operand %r" % type(o))
    items += ["(= %s %s)" % (a, b) for a, b in c.equality_preconditions]
    items += ["(not (= %s %s))" % (a, b) for a, b in c.inequality_preconditions]
    return "(%s %s)" % (c.binary_operator, " ".join(items))


def dump_group(discrete, numeric):
    return "(and %s)" % " ".join([dump_lit(x) for x in discrete] + [dump_tree(x.root) for x in numeric])


def dump_action(action):
    params = " ".join("%s - %s" % (n, t.name) for n, t in action.signature.items())
    effs = [dump_lit(x) for x in action.discrete_effects] + [dump_tree(x.root) for x in action.numeric_effects]
    for ce in action.conditional_effects:
        effs.append("(when %s %s)" % (dump_cond(ce.antecedents.root), dump_group(ce.discrete_effects, ce.numeric_effects)))
    for ue in action.universal_effects:
        for ce in ue.conditional_effects:
            effs.append("(forall (%s - %s) (when %s %s))" % (ue.quantified_parameter, ue.quantified_type.name,
                                                             dump_cond(ce.antecedents.root),
                                                             dump_group(ce.discrete_effects, ce.numeric_effects)))
    return "(:action %s :parameters (%s) :precondition %s :effect (and %s))" % (
        action.name, params, dump_cond(action.preconditions.root), " ".join(effs))


def sequence(job):
    """job: domain_text, header_text (the domain text up to and without its actions and its last parenthesis), problem_text,
    states [problem_text] (for 'app' steps), steps [{kind: ground|app|edit, ...}].
    Returns epochs [{text, nums, vocab}] (the domain as exported after each edit; epoch 0 = as parsed) and one result per step."""
    from pddl_plus_parser.models import State
    out = {}
    dpath = write_tmp(job["domain_text"], ".pddl")
    ppath = write_tmp(job["problem_text"], ".pddl")
    spaths = [write_tmp(t, ".pddl") for t in job.get("states", [])]
    try:
        try:
            domain = DomainParser(dpath).parse_domain()
        except Exception as e:  # noqa
            out["parse_raised"] = exc(e)
            return out
        try:
            problem = ProblemParser(ppath, domain).parse_problem()
            sproblems = [ProblemParser(sp, domain).parse_problem() for sp in spaths]
        except Exception as e:  # noqa
            out["problem_raised"] = exc(e)
            return out

        def snapshot():
            text = job["header_text"] + "\n" + "\n".join(dump_action(a) for a in domain.actions.values()) + ")"
            return {"text": text, "nums": number_table(text), "vocab": vocab(domain)}
        epochs = [snapshot()]
        kept = {}
        results = []
        for st in job["steps"]:
            action = domain.actions.get(st["action"])
            if st["kind"] == "edit":
                try:
                    done = apply_edit(domain, action, st)
                except Exception as e:  # noqa
                    # not this property's subject (e.g. remove_condition after change_signature: KeyError from a set whose members
                    # were renamed in place, proposed_fixes/D92): whatever the edit did, the schema is re-dumped and judged as it is now
                    epochs.append(snapshot())
                    results.append({"edit_raised": exc(e), "epoch": len(epochs) - 1})
                    continue
                epochs.append(snapshot())            # always: the text is what the schema IS now, whatever the edit did
                results.append({"done": done, "epoch": len(epochs) - 1})
                continue
            key = (st["action"], tuple(st["args"]))
            r = {"epoch": len(epochs) - 1}
            try:
                if st.get("mode") == "reuse" and key in kept:
                    op = kept[key]
                    op.grounded = False
                    r["reused"] = True
                else:
                    op = Operator(action, domain, list(st["args"]), problem.objects)
                    kept[key] = op
                if st["kind"] == "ground":
                    r["obs"] = {"value": observe_op(op, domain, action, st["args"])}
                else:
                    sp = sproblems[st["state"]]
                    state = State({k: set(v) for k, v in sp.initial_state_predicates.items()},
                                  {k: v.copy() for k, v in sp.initial_state_fluents.items()}, is_init=True)
                    r["app"] = {"value": bool(op.is_applicable(state))}
            except Exception as e:  # noqa
                r["obs" if st["kind"] == "ground" else "app"] = exc(e)
            results.append(r)
        out["epochs"] = epochs
        out["steps"] = results
        return out
    finally:
        dpath.unlink()
        ppath.unlink()
        for sp in spaths:
            sp.unlink()
