"""Implementation driver for the exhaustive small scope of C02: truth tables of Operator.is_applicable.

One job = one domain text (one action per formula) + a tiny universe.  The facts and fluents of the universe are
parsed ONCE by the library's own ProblemParser (a problem whose :init holds every atom); a state is then a subset of
those parsed objects, so states are exactly what the library would have built from a problem file (cross-checked on
the first states of every job against a problem text parsed from scratch)."""
import itertools
import os
from pathlib import Path

from pddl_plus_parser.lisp_parsers import DomainParser, ProblemParser
from pddl_plus_parser.models import Operator, State

from ops_core import write_tmp, exc, number_table, read_state_text


def _problem_text(objects, facts, fluents, domain="dom"):
    o = " ".join("%s - %s" % (n, t) for n, t in objects)
    init = " ".join("(= (%s) %r)" % (" ".join([f] + list(a)), float(v)) for f, a, v in fluents)
    init += " " + " ".join("(%s)" % " ".join([p] + list(a)) for p, a in facts)
    return "(define (problem prob) (:domain %s) (:objects %s) (:init %s) (:goal (and)))" % (domain, o, init)


def decode(job, row, n):
    """the n-th state of a row: (list of atom indices that hold, list of value indices per fluent)"""
    rel_a, rel_f = row["rel_atoms"], row["rel_fl"]
    B = len(job["grid"])
    mask = row["base_facts"]
    for t, i in enumerate(rel_a):
        if (n >> t) & 1:
            mask |= 1 << i
    code = n >> len(rel_a)
    digits = []
    for j in range(len(job["fluents"])):
        if j in rel_f:
            t = rel_f.index(j)
            digits.append((code // (B ** t)) % B)
        else:
            digits.append((row["base_fl"] // (B ** j)) % B)
    held = [i for i in range(len(job["atoms"])) if (mask >> i) & 1]
    return held, digits


def n_states(job, row):
    return (2 ** len(row["rel_atoms"])) * (len(job["grid"]) ** len(row["rel_fl"]))


def scope(job):
    """job: domain_text, objects [[name,type]], atoms [[p,[args]]], fluents [[f,[args]]], grid [hex], rows [...]"""
    out = {"nums": number_table(job["domain_text"])}
    grid = [float.fromhex(h) for h in job["grid"]]
    dpath = write_tmp(job["domain_text"], ".pddl")
    full = _problem_text(job["objects"], job["atoms"], [(f, a, grid[0]) for f, a in job["fluents"]])
    ppath = write_tmp(full, ".pddl")
    try:
        try:
            domain = DomainParser(dpath).parse_domain()
            problem = ProblemParser(ppath, domain).parse_problem()
        except Exception as e:  # noqa
            out["parse_raised"] = exc(e)
            return out
        # building blocks: the parser's own objects, keyed by their untyped text
        gp_by_text = {}
        for lifted, gps in problem.initial_state_predicates.items():
            for gp in gps:
                gp_by_text[gp.untyped_representation] = (lifted, gp)
        fl_by_text = dict(problem.initial_state_fluents)
        atom_objs = []
        for p, a in job["atoms"]:
            key = "(%s %s)" % (p, " ".join(a))
            atom_objs.append(gp_by_text[key])
        fl_objs = []
        for f, a in job["fluents"]:
            key = "(%s %s)" % (f, " ".join(a))
            fl_objs.append((key, fl_by_text[key]))

        def make_state(held, digits):
            preds = {}
            for i in held:
                lifted, gp = atom_objs[i]
                preds.setdefault(lifted, set()).add(gp.copy())
            fls = {}
            for (key, fn), dg in zip(fl_objs, digits):
                c = fn.copy()
                c.set_value(grid[dg])
                fls[key] = c
            return State(preds, fls, is_init=True)

        # wave 3: job["noobj"] -- the Operators are built WITHOUT an object table (problem_objects=None, not the empty dict)
        noobj = bool(job.get("noobj"))
        answers = []
        checked = 0
        for row in job["rows"]:
            action = domain.actions.get(row["action"])
            chars = []
            for n in range(n_states(job, row)):
                held, digits = decode(job, row, n)
                try:
                    op = Operator(action, domain, list(row["args"]), None if noobj else problem.objects)
                    ch = "T" if op.is_applicable(make_state(held, digits)) else "F"
                except Exception:  # noqa
                    ch = "E"
                chars.append(ch)
                if checked < job.get("selfcheck", 2):
                    # the same probe through a problem text parsed from scratch
                    checked += 1
                    txt = _problem_text(job["objects"], [job["atoms"][i] for i in held],
                                        [(f, a, grid[dg]) for (f, a), dg in zip(job["fluents"], digits)])
                    p2 = write_tmp(txt, ".pddl")
                    try:
                        pr2 = ProblemParser(p2, domain).parse_problem()
                        st2 = State({k: set(v) for k, v in pr2.initial_state_predicates.items()},
                                    {k: v.copy() for k, v in pr2.initial_state_fluents.items()}, is_init=True)
                        try:
                            ch2 = "T" if Operator(action, domain, list(row["args"]), None if noobj else pr2.objects).is_applicable(st2) else "F"
                        except Exception:  # noqa
                            ch2 = "E"
                        a, b = read_state_text(st2.serialize()), read_state_text(make_state(held, digits).serialize())
                        same_text = (sorted(map(str, a["facts"])) == sorted(map(str, b["facts"])) and
                                     sorted(map(str, a["fluents"])) == sorted(map(str, b["fluents"])))
                        if ch2 != ch or not same_text:
                            raise RuntimeError("state construction differs from the problem parser's: %r %r %r | %r | %r" % (
                                ch, ch2, txt, st2.serialize(), make_state(held, digits).serialize()))
                    finally:
                        p2.unlink()
            answers.append("".join(chars))
        out["answers"] = answers
        return out
    finally:
        dpath.unlink()
        ppath.unlink()


# ---------------------------------------------------------------------------------------------------------------
# wave 3: a generated world answered by Operators built WITHOUT an object table (problem_objects=None)
def world_noobj(job):
    """job as ops_core.world; only the applicability is observed (the successor is C03's)"""
    out = {"nums": number_table(job["domain_text"])}
    dpath = write_tmp(job["domain_text"], ".pddl")
    try:
        try:
            domain = DomainParser(dpath).parse_domain()
            from ops_core import vocab
            out["vocab"] = vocab(domain)
        except (RecursionError, Exception) as e:  # noqa
            out["parse_raised"] = exc(e)
            return out
        res = []
        for pr in job["probes"]:
            ppath = write_tmp(pr["problem_text"], ".pddl")
            try:
                try:
                    problem = ProblemParser(ppath, domain).parse_problem()
                except Exception as e:  # noqa
                    res.append({"problem_raised": exc(e)})
                    continue
                action = domain.actions.get(pr["action"])
                r = {"succ": {"raised": "not-observed"}}
                if action is None:
                    r["app"] = exc(KeyError(pr["action"]))
                else:
                    state = State({k: set(v) for k, v in problem.initial_state_predicates.items()},
                                  {k: v.copy() for k, v in problem.initial_state_fluents.items()}, is_init=True)
                    try:
                        r["app"] = {"value": bool(Operator(action, domain, list(pr["args"]), None).is_applicable(state))}
                    except Exception as e:  # noqa
                        r["app"] = exc(e)
                res.append(r)
            finally:
                ppath.unlink()
        out["probes"] = res
        return out
    finally:
        dpath.unlink()
