"""Implementation driver for C08 (domain export / parse round trip).

One job = one domain text (generated, or a shipped file) plus probes.  The domain is parsed (D0), exported with
the real DomainExporter (X1), the exported text is parsed again (D1) and exported again (X2), and X2 is parsed
once more (D2).  Returned: the three vocabularies, the two texts, float(token) for every numeral of the three
texts, the exporter's decimal settings, and for every probe (problem text, action, arguments) the applicability
and the successor computed by Operator on D0 and on D1."""
import itertools
import os
import random
from pathlib import Path

from pddl_plus_parser.exporters.domain_exporter import DomainExporter
from pddl_plus_parser.lisp_parsers import DomainParser, ProblemParser
from pddl_plus_parser.models import Operator, State

from ops_core import ForcedOrder, exc, number_table, read_state_text, vocab, write_tmp


def digits_config(job=None):
    import pddl_plus_parser.models.numerical_expression as ne
    import pddl_plus_parser.models.pddl_precondition as pp
    return {"dpre": int(pp.DEFAULT_DECIMAL_DIGITS), "deff": int(ne.DEFAULT_DIGITS),
            "epsilon": float(ne.EPSILON).hex()}


def parse_text(text):
    p = write_tmp(text, ".pddl")
    try:
        return DomainParser(p).parse_domain()
    finally:
        p.unlink()


def behaviour(domain, problem_text, action_name, args, perm_seed):
    """applicability and successor of one call in the problem's initial state"""
    r = {}
    ppath = write_tmp(problem_text, ".pddl")
    try:
        try:
            problem = ProblemParser(ppath, domain).parse_problem()
        except Exception as e:  # noqa
            return {"app": exc(e), "succ": exc(e)}

        def fresh_state():
            return State({k: set(v) for k, v in problem.initial_state_predicates.items()},
                         {k: v.copy() for k, v in problem.initial_state_fluents.items()}, is_init=True)
        action = domain.actions.get(action_name)
        if action is None:
            return {"app": exc(KeyError(action_name)), "succ": exc(KeyError(action_name))}
        try:
            op = Operator(action, domain, list(args), problem.objects)
            r["app"] = {"value": bool(op.is_applicable(fresh_state()))}
        except Exception as e:  # noqa
            r["app"] = exc(e)
        try:
            op = Operator(action, domain, list(args), problem.objects)
            op.ground()
            if perm_seed:
                rnd = random.Random(perm_seed)
                groups = list(op.grounded_effects)
                univ = list(op.lifted_universal_effects)
                rnd.shuffle(groups)
                rnd.shuffle(univ)
                op.grounded_effects = ForcedOrder(groups)
                op.lifted_universal_effects = ForcedOrder(univ)
            nxt = op.apply(fresh_state())
            r["succ"] = {"value": read_state_text(nxt.serialize())}
        except Exception as e:  # noqa
            r["succ"] = exc(e)
        return r
    finally:
        ppath.unlink()


# ---------------------------------------------------------------- probes for a shipped domain (no generator knows it)
def subtypes_of(domain, tname):
    out = []
    for n, t in domain.types.items():
        a = t
        while a is not None:
            if a.name == tname:
                out.append(n)
                break
            a = a.parent
    return out


def auto_probes(domain, seed, n_states=2, calls=3, max_facts=14):
    """two objects per type, random facts/fluent values, type-correct random calls; everything from `seed`"""
    rng = random.Random(seed)
    tnames = [n for n in domain.types]
    objs = []
    for i, t in enumerate(tnames):
        k = 2 if t != "object" or len(tnames) == 1 else 1
        for j in range(k):
            objs.append(("ob%d%s" % (j, "x%d" % i), t))
    universe = objs + [(c, o.type.name) for c, o in domain.constants.items()]

    def pool(tname):
        subs = set(subtypes_of(domain, tname))
        return [o for o, t in universe if t in subs]

    def ground(decls, limit):
        out = []
        for n, d in decls.items():
            pools = [pool(t.name) for t in d.signature.values()]
            if not all(pools) and pools:
                continue
            combos = list(itertools.islice(itertools.product(*pools), 60))
            rng.shuffle(combos)
            for c in combos[:limit]:
                if len(set(c)) == len(c):
                    out.append((n, list(c)))
        return out
    from pddl_plus_parser.models import Predicate

    def wanted_facts(action, args):
        """the positive literals at the top of the precondition, grounded for this call (so that some probes are applicable)"""
        binding = dict(zip(action.signature.keys(), args))
        out = []
        for cond in action.preconditions.root.operands:
            if isinstance(cond, Predicate) and cond.is_positive:
                gargs = [binding.get(p, p) for p in cond.signature.keys()]
                if len(set(gargs)) == len(gargs):
                    out.append((cond.name, gargs))
        return out
    probes = []
    for si in range(n_states):
        base = ground(domain.predicates, 4)
        rng.shuffle(base)
        base = base[:max_facts]
        fluents = [(f, a, rng.choice([0.0, 1.0, 2.0, 5.0, 10.0, 0.5])) for f, a in ground(domain.functions, 4)][:max_facts]
        o = []
        for n, t in objs:
            o += [n, "-", t]
        acts = list(domain.actions.values())
        rng.shuffle(acts)
        for a in acts[:calls]:
            pools = [pool(t.name) for t in a.signature.values()]
            if pools and not all(pools):
                continue
            args = []
            for pl in pools:                       # distinct arguments where the pools allow it
                cand = [x for x in pl if x not in args] or pl
                args.append(rng.choice(cand))
            facts = list(base)
            if si % 2 == 0:                        # every other state is made to satisfy the call's positive literals
                for w in wanted_facts(a, args):
                    if w not in facts:
                        facts.append(w)
            init = ["(= (%s) %r)" % (" ".join([f] + x), v) for f, x, v in fluents] + ["(%s)" % " ".join([p] + x) for p, x in facts]
            ptxt = "(define (problem prob) (:domain %s) (:objects %s) (:init %s) (:goal (and)))" % (
                domain.name, " ".join(o), " ".join(init))
            probes.append({"action": a.name, "args": args, "problem_text": ptxt, "perm_seed": 0,
                           "state": {"facts": [[p, x] for p, x in facts], "fluents": [[f, x, float(v).hex()] for f, x, v in fluents]}})
    return {"objects": [list(o) for o in objs], "probes": probes}


# ---------------------------------------------------------------- the round trip
def roundtrip(job):
    """job: domain_text | domain_path, probes [{action,args,problem_text,perm_seed}] | auto_seed"""
    if "domain_path" in job:
        try:
            text = Path(job["domain_path"]).read_text()
        except Exception as e:  # noqa
            return {"unreadable": exc(e)}
    else:
        text = job["domain_text"]
    out = {"cfg": digits_config(), "nums": number_table(text), "text": text}
    try:
        d0 = parse_text(text)
        out["vocab0"] = vocab(d0)
        out["reqs0"] = list(d0.requirements)
        out["name0"] = d0.name
    except RecursionError as e:
        out["parse_raised"] = exc(e)
        return out
    except Exception as e:  # noqa
        out["parse_raised"] = exc(e)
        return out
    probes = job.get("probes")
    if probes is None:
        try:
            auto = auto_probes(d0, job.get("auto_seed", 0))
        except Exception as e:  # noqa
            auto = {"objects": [], "probes": [], "auto_raised": exc(e)}
        # keep the automatically built probes whose problem text the library itself accepts
        good = []
        for pr in auto["probes"]:
            ppath = write_tmp(pr["problem_text"], ".pddl")
            try:
                ProblemParser(ppath, d0).parse_problem()
                good.append(pr)
            except Exception:  # noqa
                pass
            finally:
                ppath.unlink()
        auto["dropped"] = len(auto["probes"]) - len(good)
        auto["probes"] = good
        probes = good
        out["auto"] = auto
    exporter = DomainExporter()
    try:
        x1 = exporter.extract_domain(d0)
        out["x1"] = x1
        out["nums"].update(number_table(x1))
    except Exception as e:  # noqa
        out["export_raised"] = exc(e)
        return out
    try:
        d1 = parse_text(x1)
        out["vocab1"] = vocab(d1)
        out["reqs1"] = list(d1.requirements)
        out["name1"] = d1.name
    except Exception as e:  # noqa
        out["reparse_raised"] = exc(e)
        return out
    try:
        x2 = exporter.extract_domain(d1)
        out["x2"] = x2
        out["nums"].update(number_table(x2))
        d2 = parse_text(x2)
        out["vocab2"] = vocab(d2)
    except Exception as e:  # noqa
        out["second_raised"] = exc(e)
    res = []
    for pr in probes:
        b0 = behaviour(d0, pr["problem_text"], pr["action"], pr["args"], pr.get("perm_seed", 0))
        b1 = behaviour(d1, pr["problem_text"], pr["action"], pr["args"], pr.get("perm_seed", 0))
        res.append({"app0": b0["app"], "succ0": b0["succ"], "app1": b1["app"], "succ1": b1["succ"]})
    out["probes"] = res
    return out


# ---------------------------------------------------------------- process-level sequences
def roundtrip_seq(job):
    """ONE DomainExporter instance, ONE Domain object D0 (parsed from job["domain_text"]) and ONE output path, used again
    and again:
      first                   export_domain(D0, path); the file is read back and parsed
      after-apply             every probe is executed on D0 itself (Operator built on D0's own actions: is_applicable, apply),
                              then D0 is exported to the same path again
      other-domain            another domain text is parsed and exported by the same exporter to the same path (judged
                              against its own text; it carries the probes only if they are its own - they are not, so none)
      after-other-domain      then D0 again
      after-change-signature  change_signature(mapping) on one action of D0, export again; the reference text is the
                              domain text with that action's parameters renamed by the generator
      after-inverse           change_signature(inverse mapping), export again; the reference is the original text
    Every stage is answered like roundtrip(): the reference text is parsed afresh (vocab0, behaviour 0), the file written
    at that stage is read (x1), parsed (vocab1, behaviour 1), exported once more by the same exporter to the same path (x2)
    and parsed (vocab2)."""
    text = job["domain_text"]
    try:
        d0 = parse_text(text)
    except RecursionError as e:
        return {"parse_raised": exc(e)}
    except Exception as e:  # noqa
        return {"parse_raised": exc(e)}
    exporter = DomainExporter()
    path = write_tmp("", ".pddl")
    probes = job.get("probes", [])

    def stage(label, ref_text, dom=None):
        dom = d0 if dom is None else dom
        out = {"stage": label, "cfg": digits_config(), "nums": number_table(ref_text), "text": ref_text}
        try:
            ref = parse_text(ref_text)
            out["vocab0"] = vocab(ref)
            out["reqs0"] = list(ref.requirements)
            out["name0"] = ref.name
        except Exception as e:  # noqa
            out["parse_raised"] = exc(e)
            return out
        try:
            exporter.export_domain(dom, path)
            x1 = path.read_text()
            out["x1"] = x1
            out["nums"].update(number_table(x1))
        except Exception as e:  # noqa
            out["export_raised"] = exc(e)
            return out
        try:
            d1 = parse_text(x1)
            out["vocab1"] = vocab(d1)
            out["reqs1"] = list(d1.requirements)
            out["name1"] = d1.name
        except Exception as e:  # noqa
            out["reparse_raised"] = exc(e)
            return out
        try:
            exporter.export_domain(d1, path)
            x2 = path.read_text()
            out["x2"] = x2
            out["nums"].update(number_table(x2))
            out["vocab2"] = vocab(parse_text(x2))
        except Exception as e:  # noqa
            out["second_raised"] = exc(e)
        res = []
        for pr in (probes if dom is d0 else []):
            b0 = behaviour(ref, pr["problem_text"], pr["action"], pr["args"], pr.get("perm_seed", 0))
            b1 = behaviour(d1, pr["problem_text"], pr["action"], pr["args"], pr.get("perm_seed", 0))
            res.append({"app0": b0["app"], "succ0": b0["succ"], "app1": b1["app"], "succ1": b1["succ"]})
        out["probes"] = res
        return out

    stages = []
    try:
        stages.append(stage("first", text))
        for pr in probes:
            behaviour(d0, pr["problem_text"], pr["action"], pr["args"], pr.get("perm_seed", 0))
        stages.append(stage("after-apply", text))
        if job.get("other_text"):
            try:
                other = parse_text(job["other_text"])
            except Exception:  # noqa
                other = None
            if other is not None:
                stages.append(stage("other-domain", job["other_text"], other))
        stages.append(stage("after-other-domain", text))
        rn = job.get("rename")
        if rn:
            d0.actions[rn["action"]].change_signature(dict(rn["mapping"]))
            stages.append(stage("after-change-signature", rn["renamed_text"]))
            d0.actions[rn["action"]].change_signature({v: k for k, v in rn["mapping"].items()})
            stages.append(stage("after-inverse", text))
    finally:
        if path.exists():
            path.unlink()
    return {"stages": stages}
