"""Implementation driver for C16: multi_agent.common.apply_actions and MultiAgentTrajectoryExporter."""
import inspect
from pathlib import Path

from pddl_plus_parser.lisp_parsers import DomainParser, ProblemParser
from pddl_plus_parser.models import ActionCall, Operator
from pddl_plus_parser.multi_agent import MultiAgentTrajectoryExporter
from pddl_plus_parser.multi_agent.common import apply_actions, create_initial_state
import pddl_plus_parser.multi_agent.multi_agent_trajectory_exporter as mate

from ops_core import exc, number_table, read_state_text, vocab, write_tmp

# the pattern the model's scanner was written for (Model/Joint.v: scan_groups)
EXPECTED_REGEX = r"\(([\w+\s?-]+)\)"


def load(job, out, tmp):
    if "domain_path" in job:
        dpath = Path(job["domain_path"])
        dtext = dpath.read_text()
    else:
        dtext = job["domain_text"]
        dpath = write_tmp(dtext, ".pddl")
        tmp.append(dpath)
    for k, v in number_table(dtext).items():
        out["nums"].setdefault(k, v)
    try:
        domain = DomainParser(dpath, partial_parsing=False).parse_domain() if job.get("full_parse") else DomainParser(dpath).parse_domain()
        out["vocab"] = vocab(domain)
    except Exception as e:  # noqa
        out["parse_raised"] = exc(e)
        return None, None
    if "problem_path" in job:
        ppath = Path(job["problem_path"])
    else:
        ppath = write_tmp(job["problem_text"], ".pddl")
        tmp.append(ppath)
    try:
        problem = ProblemParser(ppath, domain).parse_problem()
    except Exception as e:  # noqa
        out["problem_raised"] = exc(e)
        return domain, None
    out["objects"] = [[n, o.type.name] for n, o in problem.objects.items()]
    out["init"] = read_state_text(create_initial_state(problem).serialize())
    return domain, problem


def cleanup(tmp):
    for p in tmp:
        try:
            p.unlink()
        except OSError:
            pass


def probe(job):
    """which of the given calls are applicable in the problem's initial state (used to SELECT inputs only)"""
    out = {"nums": {}}
    tmp = []
    try:
        domain, problem = load(job, out, tmp)
        if problem is None:
            return out
        s0 = create_initial_state(problem)
        res = []
        for name, args in job["calls"]:
            try:
                res.append(bool(Operator(domain.actions[name], domain, list(args), problem.objects).is_applicable(s0)))
            except Exception:  # noqa
                res.append(None)
        out["applicable"] = res
        return out
    finally:
        cleanup(tmp)


def call_apply_actions(domain, state, members, allow, objects):
    """apply_actions with the object table when the signature has the parameter (it is what the exporter passes)"""
    calls = [ActionCall(name=n, grounded_parameters=list(a)) for n, a in members]
    if "problem_objects" in inspect.signature(apply_actions).parameters:
        return apply_actions(domain, state, calls, allow_inapplicable_actions=allow, problem_objects=objects)
    return apply_actions(domain, state, calls, allow_inapplicable_actions=allow)


def joint(job):
    """job: domain_text, problem_text, runs [{members, allow}], lines [str] | plan_path, allow, exporter_allow"""
    out = {"nums": {}, "regex": mate.JOINT_ACTION_REGEX, "regex_expected": mate.JOINT_ACTION_REGEX == EXPECTED_REGEX}
    tmp = []
    try:
        domain, problem = load(job, out, tmp)
        if problem is None:
            return out
        runs = []
        for r in job.get("runs", []):
            try:
                nxt = call_apply_actions(domain, create_initial_state(problem), r["members"], bool(r["allow"]), problem.objects)
                runs.append({"value": read_state_text(nxt.serialize())})
            except ValueError as e:
                runs.append({"refused": str(e)[:100]})
            except Exception as e:  # noqa
                runs.append(exc(e))
        out["runs"] = runs
        if "plan_path" in job:
            with open(job["plan_path"], "rt") as fh:
                lines = fh.readlines()
            if job.get("max_lines"):
                lines = lines[:job["max_lines"]]
        else:
            lines = list(job.get("lines", []))
        out["lines"] = lines
        exporter = MultiAgentTrajectoryExporter(domain, allow_invalid_actions=bool(job.get("exporter_allow", False)))
        try:
            triplets = exporter.parse_plan(problem, action_sequence=lines, allow_inapplicable_actions=bool(job.get("allow", False)))
        except Exception as e:  # noqa
            out["trace_raised"] = exc(e)
            return out
        out["steps"] = [{"pre": read_state_text(t.previous_state.serialize()), "ops": [str(o) for o in t.joint_action],
                         "post": read_state_text(t.next_state.serialize())} for t in triplets]
        try:
            text = "".join(MultiAgentTrajectoryExporter.export(triplets))
            out["export"] = text
            for k, v in number_table(text).items():
                out["nums"].setdefault(k, v)
        except Exception as e:  # noqa
            out["export_raised"] = exc(e)
        return out
    finally:
        cleanup(tmp)


def lex(job):
    """the joint-action reader on raw texts: [[name, params]...] or the exception class"""
    out = []
    for t in job["texts"]:
        try:
            j = mate.parse_action_call(t)
            out.append({"members": [[a.name, list(a.parameters)] for a in j.actions]})
        except Exception as e:  # noqa
            out.append({"raised": type(e).__name__})
    return out
