"""Implementation driver for C16: multi_agent.common.apply_actions and MultiAgentTrajectoryExporter."""
import inspect
from pathlib import Path

from pddl_plus_parser.lisp_parsers import DomainParser, ProblemParser
from pddl_plus_parser.models import ActionCall, Operator
from pddl_plus_parser.multi_agent import MultiAgentTrajectoryExporter
from pddl_plus_parser.multi_agent.common import apply_actions, create_initial_state
import pddl_plus_parser.multi_agent.multi_agent_trajectory_exporter as mate

from ops_core import exc, number_table, read_state_text, vocab, write_tmp

# the pattern the model's scanner was written for (Model/Joint.v: scan_groups)
EXPECTED_REGEX = r"\(([\w+\s?-]+)\)"


def load(job, out, tmp):
    if "domain_path" in job:
        dpath = Path(job["domain_path"])
        dtext = dpath.read_text()
    else:
        dtext = job["domain_text"]
        dpath = write_tmp(dtext, ".pddl")
        tmp.append(dpath)
    for k, v in number_table(dtext).items():
        out["nums"].setdefault(k, v)
    try:
        domain = DomainParser(dpath, partial_parsing=False).parse_domain() if job.get("full_parse") else DomainParser(dpath).parse_domain()
        out["vocab"] = vocab(domain)
    except Exception as e:  # noqa
        out["parse_raised"] = exc(e)
        return None, None
    if "problem_path" in job:
        ppath = Path(job["problem_path"])
    else:
        ppath = write_tmp(job["problem_text"], ".pddl")
        tmp.append(ppath)
    try:
        problem = ProblemParser(ppath, domain).parse_problem()
    except Exception as e:  # noqa
        out["problem_raised"] = exc(e)
        return domain, None
    out["objects"] = [[n, o.type.name] for n, o in problem.objects.items()]
    out["init"] = read_state_text(create_initial_state(problem).serialize())
    return domain, problem


def cleanup(tmp):
    for p in tmp:
        try:
            p.unlink()
        except OSError:
            pass


def probe(job):
    """which of the given calls are applicable in the problem's initial state (used to SELECT inputs only)"""
    out = {"nums": {}}
    tmp = []
    try:
        domain, problem = load(job, out, tmp)
        if problem is None:
            return out
        s0 = create_initial_state(problem)
        res = []
        for name, args in job["calls"]:
            try:
                res.append(bool(Operator(domain.actions[name], domain, list(args), problem.objects).is_applicable(s0)))
            except Exception:  # noqa
                res.append(None)
        out["applicable"] = res
        return out
    finally:
        cleanup(tmp)


def call_apply_actions(domain, state, members, allow, objects):
    """apply_actions with the object table when the signature has the parameter (it is what the exporter passes)"""
    calls = [ActionCall(name=n, grounded_parameters=list(a)) for n, a in members]
    if "problem_objects" in inspect.signature(apply_actions).parameters:
        return apply_actions(domain, state, calls, allow_inapplicable_actions=allow, problem_objects=objects)
    return apply_actions(domain, state, calls, allow_inapplicable_actions=allow)


def snap(state):
    """what a state object looks like from outside: the flag and its serialized text re-read (facts are printed sorted)"""
    return [bool(state.is_init), read_state_text(state.serialize())]


def joint(job):
    """job: domain_text, problem_text, runs [{members, allow}], lines [str] | plan_path, allow, exporter_allow"""
    out = {"nums": {}, "regex": mate.JOINT_ACTION_REGEX, "regex_expected": mate.JOINT_ACTION_REGEX == EXPECTED_REGEX}
    tmp = []
    try:
        domain, problem = load(job, out, tmp)
        if problem is None:
            return out
        runs = []
        for r in job.get("runs", []):
            s_in = create_initial_state(problem)
            before = snap(s_in)
            nxt = None
            try:
                nxt = call_apply_actions(domain, s_in, r["members"], bool(r["allow"]), problem.objects)
                runs.append({"value": read_state_text(nxt.serialize())})
            except ValueError as e:
                runs.append({"refused": str(e)[:100]})
            except Exception as e:  # noqa
                runs.append(exc(e))
            # the state passed in is as before the call and the result is another object
            runs[-1]["intact"] = snap(s_in) == before and nxt is not s_in
        out["runs"] = runs
        if "plan_path" in job:
            with open(job["plan_path"], "rt") as fh:
                lines = fh.readlines()
            if job.get("max_lines"):
                lines = lines[:job["max_lines"]]
        else:
            lines = list(job.get("lines", []))
        out["lines"] = lines
        exporter = MultiAgentTrajectoryExporter(domain, allow_invalid_actions=bool(job.get("exporter_allow", False)))
        try:
            triplets = exporter.parse_plan(problem, action_sequence=lines, allow_inapplicable_actions=bool(job.get("allow", False)))
        except Exception as e:  # noqa
            out["trace_raised"] = exc(e)
            return out
        out["steps"] = [{"pre": read_state_text(t.previous_state.serialize()), "ops": [str(o) for o in t.joint_action],
                         "post": read_state_text(t.next_state.serialize())} for t in triplets]
        out["plan_intact"] = (all(t.next_state is not t.previous_state for t in triplets)
                              and read_state_text(create_initial_state(problem).serialize()) == out["init"])
        try:
            text = "".join(MultiAgentTrajectoryExporter.export(triplets))
            out["export"] = text
            for k, v in number_table(text).items():
                out["nums"].setdefault(k, v)
        except Exception as e:  # noqa
            out["export_raised"] = exc(e)
        return out
    finally:
        cleanup(tmp)


# ------------------------------------------------------------------------------------------------ sequences
def _observe_triplets(exporter_cls, triplets, out):
    out["steps"] = [{"pre": read_state_text(t.previous_state.serialize()), "ops": [str(o) for o in t.joint_action],
                     "post": read_state_text(t.next_state.serialize())} for t in triplets]
    try:
        text = "".join(exporter_cls.export(triplets))
        out["export"] = text
        for k, v in number_table(text).items():
            out["nums"].setdefault(k, v)
    except Exception as e:  # noqa
        out["export_raised"] = exc(e)


def sequence(job):
    """ONE process, objects reused: every domain text is parsed once, every problem once (with the Domain object of its
    index), every exporter is built once, the initial state OBJECT of a problem is built once and handed to every direct
    call on it, a returned state object may be handed to later calls, plan files are written to ONE path again and again.
    job: domains [text], problems [{domain, text}], exporters [{domain, allow}], steps [
           {kind: apply,   problem, state: "init" | index of an earlier apply step that returned, members, allow}
           {kind: plan,    problem, exporter, lines, allow, via: "seq" | "file"}
           {kind: triplet, problem, exporter, line, allow}        # create_multi_agent_triplet on the shared init object
         ]
    Every step reports what THAT call was given (the input state as serialized just before the call) and what it
    answered; plus 'intact': the state object passed in looks as before and the answer is another object."""
    out = {"nums": {}, "regex": mate.JOINT_ACTION_REGEX, "regex_expected": mate.JOINT_ACTION_REGEX == EXPECTED_REGEX}
    tmp = []
    try:
        domains, problems, inits, first_init = [], [], [], []
        for dtext in job["domains"]:
            dpath = write_tmp(dtext, ".pddl")
            tmp.append(dpath)
            for k, v in number_table(dtext).items():
                out["nums"].setdefault(k, v)
            domains.append(DomainParser(dpath).parse_domain())
        out["vocab"] = [vocab(d) for d in domains]
        out["objects"] = []
        for p in job["problems"]:
            ppath = write_tmp(p["text"], ".pddl")
            tmp.append(ppath)
            prob = ProblemParser(ppath, domains[p["domain"]]).parse_problem()
            problems.append(prob)
            out["objects"].append([[n, o.type.name] for n, o in prob.objects.items()])
            inits.append(create_initial_state(prob))
            first_init.append(snap(inits[-1]))
        out["inits"] = [s[1] for s in first_init]
        exporters = [MultiAgentTrajectoryExporter(domains[e["domain"]], allow_invalid_actions=bool(e["allow"]))
                     for e in job["exporters"]]
        plan_path = write_tmp("", ".solution")
        tmp.append(plan_path)
        returned = {}
        steps_out = []
        for idx, st in enumerate(job["steps"]):
            k = st["problem"]
            prob = problems[k]
            dom = domains[job["problems"][k]["domain"]]
            o = {"nums": {}}
            if st["kind"] == "apply":
                s_in = inits[k] if st["state"] == "init" else returned.get(st["state"])
                if s_in is None:
                    o["skipped"] = "the step whose answer was to be reused did not return a state"
                    steps_out.append(o)
                    continue
                before = snap(s_in)
                o["state_in"] = before[1]
                nxt = None
                try:
                    nxt = call_apply_actions(dom, s_in, st["members"], bool(st["allow"]), prob.objects)
                    o["run"] = {"value": read_state_text(nxt.serialize())}
                    returned[idx] = nxt
                except ValueError as e:
                    o["run"] = {"refused": str(e)[:100]}
                except Exception as e:  # noqa
                    o["run"] = exc(e)
                o["run"]["intact"] = snap(s_in) == before and nxt is not s_in
            elif st["kind"] == "plan":
                ex = exporters[st["exporter"]]
                lines = list(st["lines"])
                try:
                    if st.get("via") == "file":
                        with open(plan_path, "wt") as fh:             # the same path, rewritten
                            fh.writelines(lines)
                        with open(plan_path, "rt") as fh:
                            lines = fh.readlines()
                        triplets = ex.parse_plan(prob, plan_path=plan_path, allow_inapplicable_actions=bool(st["allow"]))
                    else:
                        triplets = ex.parse_plan(prob, action_sequence=lines, allow_inapplicable_actions=bool(st["allow"]))
                    _observe_triplets(MultiAgentTrajectoryExporter, triplets, o)
                    o["intact"] = all(t.next_state is not t.previous_state for t in triplets)
                except Exception as e:  # noqa
                    o["trace_raised"] = exc(e)
                    o["intact"] = True
                o["lines"] = lines
                # the problem still yields the initial state it yielded when it was parsed, the shared object too
                o["intact"] = o["intact"] and snap(create_initial_state(prob)) == first_init[k] and snap(inits[k]) == first_init[k]
            elif st["kind"] == "triplet":
                ex = exporters[st["exporter"]]
                s_in = inits[k]
                before = snap(s_in)
                o["lines"] = [st["line"]]
                t = None
                try:
                    t = ex.create_multi_agent_triplet(s_in, st["line"], problem_objects=prob.objects,
                                                      allow_inapplicable_actions=bool(st["allow"]))
                    _observe_triplets(MultiAgentTrajectoryExporter, [t], o)
                except Exception as e:  # noqa
                    o["trace_raised"] = exc(e)
                o["intact"] = snap(s_in) == before and (t is None or t.next_state is not s_in)
            steps_out.append(o)
        out["steps_out"] = steps_out
        return out
    finally:
        cleanup(tmp)


def lex(job):
    """the joint-action reader on raw texts: [[name, params]...] or the exception class"""
    out = []
    for t in job["texts"]:
        try:
            j = mate.parse_action_call(t)
            out.append({"members": [[a.name, list(a.parameters)] for a in j.actions]})
        except Exception as e:  # noqa
            out.append({"raised": type(e).__name__})
    return out
