"""Implementation driver for the semantic core (C01, C02, C03, C04, C20 ...): parse a generated domain,
dump its vocabulary, and answer probes (applicability, successor under forced effect orders)."""
import itertools
import os
import random
import re
import tempfile
from pathlib import Path

from pddl_plus_parser.lisp_parsers import DomainParser, ProblemParser
from pddl_plus_parser.models import Operator, State

TMP = Path(os.environ.get("VERIF_WORK", "/verif/work")) / "core_tmp"


def write_tmp(text, suffix):
    TMP.mkdir(parents=True, exist_ok=True)
    fd, name = tempfile.mkstemp(dir=str(TMP), suffix=suffix)
    with os.fdopen(fd, "w") as fh:
        fh.write(text)
    return Path(name)


def exc(e):
    return {"raised": type(e).__name__, "msg": str(e)[:200]}


# ---------------------------------------------------------------- vocabulary
def sig_text(signature):
    return ",".join("%s:%s" % (p, t.name) for p, t in signature.items())


def vocab(domain):
    types = sorted("%s<%s" % (n, t.parent.name) for n, t in domain.types.items() if n != "object")
    consts = sorted("%s:%s" % (n, c.type.name) for n, c in domain.constants.items())
    preds = sorted("%s(%s)" % (n, sig_text(p.signature)) for n, p in domain.predicates.items())
    funcs = sorted("%s(%s)" % (n, sig_text(f.signature)) for n, f in domain.functions.items())
    acts = sorted("%s(%s)" % (n, sig_text(a.signature)) for n, a in domain.actions.items())
    return "T[%s]C[%s]P[%s]F[%s]A[%s]" % (",".join(types), ",".join(consts), ";".join(preds), ";".join(funcs), ";".join(acts))


# ---------------------------------------------------------------- independent reader of State.serialize()
def read_state_text(text):
    toks = text.replace("(", " ( ").replace(")", " ) ").split()
    pos = 0

    def rd():
        nonlocal pos
        t = toks[pos]
        pos += 1
        if t == "(":
            out = []
            while toks[pos] != ")":
                out.append(rd())
            pos += 1
            return out
        return t
    tree = rd()
    if pos != len(toks):
        raise ValueError("trailing tokens in serialized state")
    facts, fluents = [], []
    for item in tree[1:]:
        if item[0] == "=":
            fluents.append([item[1][0], item[1][1:], float(item[2]).hex()])
        else:
            facts.append([item[0], item[1:]])
    return {"kind": tree[0], "facts": facts, "fluents": fluents}


class ForcedOrder(list):
    """a list standing in for a set attribute, iterated in the chosen order"""

    def add(self, x):
        self.append(x)


def number_table(text):
    toks = set(re.sub(r";.*", "", text.lower()).replace("(", " ").replace(")", " ").split())
    out = {}
    for t in toks:
        try:
            out[t] = float(t).hex()
        except ValueError:
            pass
    return out


def numeric_config(job):
    import pddl_plus_parser.models.numerical_expression as ne
    return {"epsilon": float(ne.EPSILON).hex(), "digits": ne.DEFAULT_DIGITS,
            "rel_probe": bool(ne.COMPARISON_OPERATORS["="](1e6, 1e6 + 5e-4))}


def world(job):
    """job: domain_text, objects [[name,type]], probes [{action,args,problem_text,perm_seed}]"""
    out = {"nums": number_table(job["domain_text"])}
    dpath = write_tmp(job["domain_text"], ".pddl")
    try:
        try:
            domain = DomainParser(dpath).parse_domain()
            out["vocab"] = vocab(domain)
        except RecursionError as e:
            out["parse_raised"] = exc(e)
            return out
        except Exception as e:  # noqa
            out["parse_raised"] = exc(e)
            return out
        res = []
        for pr in job["probes"]:
            res.append(run_probe(domain, pr))
        out["probes"] = res
        return out
    finally:
        dpath.unlink()


def run_probe(domain, pr):
    r = {}
    ppath = write_tmp(pr["problem_text"], ".pddl")
    try:
        try:
            problem = ProblemParser(ppath, domain).parse_problem()
        except Exception as e:  # noqa
            return {"problem_raised": exc(e)}

        def fresh_state():
            return State({k: set(v) for k, v in problem.initial_state_predicates.items()},
                         {k: v.copy() for k, v in problem.initial_state_fluents.items()}, is_init=True)
        action = domain.actions.get(pr["action"])
        if action is None:
            return {"app": exc(KeyError(pr["action"])), "succ": exc(KeyError(pr["action"]))}
        # applicability
        try:
            op = Operator(action, domain, list(pr["args"]), problem.objects)
            r["app"] = {"value": bool(op.is_applicable(fresh_state()))}
        except Exception as e:  # noqa
            r["app"] = exc(e)
        # successor under a forced order of the effect collections
        try:
            op = Operator(action, domain, list(pr["args"]), problem.objects)
            op.ground()
            rnd = random.Random(pr.get("perm_seed", 0))
            groups = list(op.grounded_effects)
            univ = list(op.lifted_universal_effects)
            if pr.get("perm_seed", 0):
                rnd.shuffle(groups)
                rnd.shuffle(univ)
            op.grounded_effects = ForcedOrder(groups)
            op.lifted_universal_effects = ForcedOrder(univ)
            r["ngroups"] = len(groups)
            nxt = op.apply(fresh_state())
            r["succ"] = {"value": read_state_text(nxt.serialize())}
        except Exception as e:  # noqa
            r["succ"] = exc(e)
        return r
    finally:
        ppath.unlink()
