"""Implementation drivers for C13 (simplified printing of numeric conditions through sympy).

Input conditions arrive as PDDL prefix text; the driver renders the infix ("mathematical") form the
library functions consume, or builds NumericalExpressionTree objects with the library's own reader.
Every call of convert_expr_to_pddl / transform_expression made by the library during the job is
recorded (sympy tree walked through expr.func/args, numbers as exact rationals) for correspondence (a).
"""
import re
from fractions import Fraction

from pddl_plus_parser.lisp_parsers import PDDLTokenizer
from pddl_plus_parser.models import numeric_symbolic_operations as nso
from pddl_plus_parser.models import numerical_expression as ne
from pddl_plus_parser.models import pddl_precondition as pp
from pddl_plus_parser.models.pddl_function import PDDLFunction
from pddl_plus_parser.models.pddl_type import PDDLType

import sympy
from sympy import Add, Mul, Pow, Symbol, Float, Integer, Rational

OBJ = PDDLType("object")
ARITH = ("+", "-", "*", "/")
CMP = ("<=", ">=", "<", ">", "=")

_ORIG_CONVERT = nso.convert_expr_to_pddl
_ORIG_TRANSFORM = nso.transform_expression
_LOG = []


# ------------------------------------------------------------------ sympy tree dump
def dump(e):
    """['add', [..]] ['mul', [..]] ['pow', b, e] ['flt', num, den] ['int', n] ['rat', p, q] ['sym', name]
    ['other', class name]"""
    f = e.func
    if f is Add:
        return ["add", [dump(a) for a in e.args]]
    if f is Mul:
        return ["mul", [dump(a) for a in e.args]]
    if f is Pow:
        return ["pow", dump(e.base), dump(e.exp)]
    if f is Symbol:
        return ["sym", e.name]
    if f is Float:
        sign, man, exp, _bc = e._mpf_
        v = Fraction(int(man)) * (Fraction(2) ** int(exp))
        if sign:
            v = -v
        return ["flt", str(v.numerator), str(v.denominator), int(e._prec)]
    if e.is_Integer:
        return ["int", str(int(e.p))]
    if e.is_Rational:
        return ["rat", str(int(e.p)), str(int(e.q))]
    return ["other", f.__name__]


# ------------------------------------------------------------------ hints (UNTRUSTED: only candidates for the Coq checker)
# assumed relative noise 10^-(level-1) of sympy's float arithmetic (cancellation makes it larger); the first level takes a float
# at its word up to 1e-15, so that a product such as 8823 - 2.99999^2 = 8814.0000599999 (14 digits) is not taken for 8814.00006
LEVELS = (16, 14, 12, 10, 9, 8)


def clean(fr, level=14):
    """the exact value a float most probably stands for: a fraction with a small denominator or the shortest decimal
    within the assumed noise"""
    if fr == 0:
        return fr
    tol = abs(fr) * Fraction(1, 10 ** (level - 1))
    c = fr.limit_denominator(10 ** 5)
    # a fraction this close by accident has numerator * denominator of the order 10^(level-1) or more
    if abs(c - fr) <= tol and max(abs(c.numerator), 1) * c.denominator < 10 ** (level - 2):
        return c
    for digits in range(1, 16):
        c = Fraction("%.*g" % (digits, float(fr)))
        if abs(c - fr) <= tol:
            return c
    return fr


def frac_text(fr):
    return str(fr.numerator) if fr.denominator == 1 else "%d/%d" % (fr.numerator, fr.denominator)


def exact_text(e, level=14):
    if e.func is Float:
        sign, man, exp, _bc = e._mpf_
        v = Fraction(int(man)) * (Fraction(2) ** int(exp))
        return frac_text(clean(-v if sign else v, level))
    return frac_text(Fraction(int(e.p), int(e.q)))


def _fold(op, items):
    t = items[-1]
    for x in reversed(items[:-1]):
        t = "(%s %s %s)" % (op, x, t)
    return t


def hint_convert(expr, symbols_map, d, flag, level=14, exact=None):
    """(printed text or None, hint): follows _convert_internal_expression_to_pddl of the library, using the library's own
    extract_atom / is_number_string for every decision; the hint is the same tree with exact constants, the dropped
    terms kept.  exact: optional {mpf of a Float atom: Fraction} - values computed by [exactify] instead of guessed"""
    if expr.is_Atom:
        s = nso.extract_atom(expr, symbols_map, d, flag)
        if expr.is_number and not expr.is_Integer:
            if exact is not None and expr.func is Float and expr._mpf_ in exact:
                return s, frac_text(exact[expr._mpf_])
            return s, exact_text(expr, level)
        return s, (s if s is not None else "0")
    if isinstance(expr, Pow):
        n = int(expr.exp)
        if not expr.exp.is_Integer or n == 0:
            raise ValueError("exponent")
        bs, bh = hint_convert(expr.base, symbols_map, d, flag, level, exact)
        bs = bs if bs else "0"
        ts, th = bs, bh
        for _ in range(abs(n) - 1):
            ts, th = "(* %s %s)" % (ts, bs), "(* %s %s)" % (th, bh)
        return (ts, th) if n > 0 else ("(/ 1 %s)" % ts, "(/ 1 %s)" % th)
    op = nso.SYMPY_OP_TO_PDDL_OP[expr.func]
    comps = [hint_convert(a, symbols_map, d, flag, level, exact) for a in expr.args]
    if isinstance(expr, Mul) and any(not c[0] for c in comps):
        return None, _fold("*", [c[1] for c in comps])
    kept = [c for c in comps if c[0]]
    dropped = [c[1] for c in comps if not c[0]]
    if not kept:
        return None, _fold("+", dropped)
    numfirst = nso.is_number_string(kept[0][0])
    ts = th = None
    for cs, ch in reversed(kept):
        if ts is None:
            ts, th = cs, ch
        elif numfirst:
            ts, th = "(%s %s %s)" % (op, ts, cs), "(%s %s %s)" % (op, th, ch)
        else:
            ts, th = "(%s %s %s)" % (op, cs, ts), "(%s %s %s)" % (op, ch, th)
    for z in dropped:
        th = "(+ %s %s)" % (z, th)
    return ts, th


def float_value(e):
    sign, man, exp, _bc = e._mpf_
    v = Fraction(int(man)) * (Fraction(2) ** int(exp))
    return -v if sign else v


def significant_digits(fr):
    """number of significant decimal digits of a fraction with a finite decimal expansion, else 99"""
    den = fr.denominator
    k = 0
    while den % 10 == 0:
        den //= 10
        k += 1
    while den % 2 == 0:
        den //= 2
        k += 1
    while den % 5 == 0:
        den //= 5
        k += 1
    if den != 1:
        return 99
    return len(str(abs(fr.numerator * 10 ** k // fr.denominator)).strip("0")) if fr != 0 else 1


def exact_expr(ast, sym_by_text):
    """the input (token tree of the PDDL text) as a sympy expression with exact Rational constants over the library's symbols"""
    if isinstance(ast, str):
        return Rational(ast)
    if ast[0] in ARITH and len(ast) == 3:
        a, b = exact_expr(ast[1], sym_by_text), exact_expr(ast[2], sym_by_text)
        return {"+": a + b, "-": a - b, "*": a * b, "/": a / b}[ast[0]]
    return sym_by_text[_canon_fluent(ast)]


def _canon_fluent(ast_or_text):
    toks = _tokens(ast_or_text) if isinstance(ast_or_text, str) else ["("] + list(ast_or_text) + [")"]
    return " ".join(toks)


def exactify(expr, symbolic_vars, input_ast):
    """UNTRUSTED hint computation: exact rational values for the Float atoms of the sympy expression the library printed, such
    that the expression equals the input EXACTLY (as rational functions).  A float names its exact value only up to ~16
    digits; products of the input's constants have more.  Atoms that are short decimals are taken at their word, the others
    are unknowns of the identity  expr(u) = input, which is solved when it is linear in them (after fixing more atoms if
    needed).  Returns {mpf: Fraction} or None."""
    atoms = {}
    for a in sympy.preorder_traversal(expr):
        if a.func is Float:
            atoms.setdefault(a._mpf_, a)
    if not atoms:
        return None
    sym_by_text = {_canon_fluent(k): v for k, v in (symbolic_vars or {}).items()}
    target = exact_expr(input_ast, sym_by_text)
    guess = {k: clean(float_value(a), 16) for k, a in atoms.items()}
    order = sorted(atoms, key=lambda k: -significant_digits(guess[k]))        # the longest decimals first
    unknown = [k for k in order if significant_digits(guess[k]) > 9]
    fluents = sorted(expr.free_symbols | target.free_symbols, key=str)
    while unknown:
        us = {k: Symbol("u_%d" % i) for i, k in enumerate(unknown)}
        repl = {atoms[k]: (us[k] if k in us else Rational(guess[k].numerator, guess[k].denominator)) for k in atoms}
        diff = sympy.together(expr.xreplace(repl) - target)
        num = sympy.expand(sympy.numer(diff))
        eqs = sympy.Poly(num, *fluents).coeffs() if fluents else [num]
        syms = list(us.values())
        if all(sympy.Poly(e, *syms).total_degree() <= 1 for e in eqs):
            sol = sympy.linsolve(eqs, syms)
            for tup in sol:
                if all(not t.free_symbols for t in tup):
                    out = dict(guess)
                    ok = True
                    for k, t in zip(unknown, tup):
                        fr = Fraction(int(t.p), int(t.q))
                        v = float_value(atoms[k])
                        if abs(fr - v) > abs(v) * Fraction(1, 10 ** 9):
                            ok = False
                        out[k] = fr
                    if ok:
                        return out
        unknown = unknown[:-1]           # take one more atom at its word and retry
    diff = sympy.simplify(expr.xreplace({atoms[k]: Rational(guess[k].numerator, guess[k].denominator) for k in atoms}) - target)
    return dict(guess) if diff == 0 else None


def _tokens(text):
    return re.findall(r"\(|\)|[^\s()]+", text)


def _sexp(text):
    toks = _tokens(text)
    pos = [0]

    def rd():
        t = toks[pos[0]]
        pos[0] += 1
        if t == "(":
            l = []
            while toks[pos[0]] != ")":
                l.append(rd())
            pos[0] += 1
            return l
        return t
    return rd()


def cond_hints(cond_text, table, extra_right=()):
    """candidate hints for one printed condition (op L R): the hints recorded for EVERY convert call that printed a text equal
    to L, paired with those of every call that printed R (two different trees may print the same text - "0" is what a
    vanishing product and a small constant both become), level by level (the same assumed noise on both sides), the most
    probable level first"""
    try:
        e = _sexp(cond_text)
        if not (isinstance(e, list) and len(e) == 3 and e[0] in CMP):
            return []
        l, r = _show(e[1]), _show(e[2])
        n = len(LEVELS)
        lss = table.get(l) or [[l] * n]
        rss = table.get(r) or [[r] * n]
        out = []
        for level in range(n):
            for ls in lss:
                for rs in rss:
                    h = "(%s %s %s)" % (e[0], ls[level], rs[level])
                    if h != _show(e) and h not in out:
                        out.append(h)
        for ls in lss:
            for x in extra_right:
                h = "(%s %s %s)" % (e[0], ls[0], x)
                if h != _show(e) and h not in out:
                    out.append(h)
        return out
    except Exception:  # noqa
        return []


def hint_table():
    """printed text -> the hint lists (one hint per level) of the convert calls that printed it, in call order"""
    table = {}
    for g in _LOG:
        if g.get("kind") == "convert" and len(g.get("hints") or []) == len(LEVELS) and isinstance(g.get("result"), str):
            try:
                key = _show(_sexp(g["result"]))
            except Exception:  # noqa
                continue
            lst = table.setdefault(key, [])
            if g["hints"] not in lst:
                lst.append(g["hints"])
    return table


_CALLS = []       # (sympy expression, symbolic_vars, digits, flag, result) of every convert call of the current job


def _rec_convert(expr, symbolic_vars, decimal_digits=nso.DEFAULT_DECIMAL_DIGITS, should_remove_trailing_zeros=True):
    entry = {"kind": "convert", "tree": None, "symmap": None, "digits": decimal_digits,
             "flag": bool(should_remove_trailing_zeros)}
    try:
        entry["tree"] = dump(expr)
        entry["symmap"] = [[k, v.name] for k, v in (symbolic_vars or {}).items()]
    except Exception as ex:  # noqa
        entry["dump_error"] = repr(ex)
    try:
        r = _ORIG_CONVERT(expr, symbolic_vars, decimal_digits=decimal_digits,
                          should_remove_trailing_zeros=should_remove_trailing_zeros)
        entry["result"] = r
        _CALLS.append((expr, symbolic_vars, decimal_digits, should_remove_trailing_zeros, r))
        try:
            hints = []
            for level in LEVELS:
                t, h = hint_convert(expr, {v: k for k, v in (symbolic_vars or {}).items()}, decimal_digits,
                                    should_remove_trailing_zeros, level)
                if (t if t else "0") == r:
                    hints.append(h)
            entry["hints"] = hints
        except Exception as ex:  # noqa
            entry["hint_error"] = repr(ex)
        return r
    except Exception as ex:
        entry["raised"] = type(ex).__name__
        raise
    finally:
        _LOG.append(entry)


def _rec_transform(expression, symbols_to_use=None):
    entry = {"kind": "transform", "text": expression,
             "given": None if symbols_to_use is None else [[k, v.name] for k, v in symbols_to_use.items()]}
    try:
        s, m = _ORIG_TRANSFORM(expression, symbols_to_use)
        entry["result"] = s
        entry["map"] = None if m is None else [[k, v.name] for k, v in m.items()]
        return s, m
    except Exception as ex:
        entry["raised"] = type(ex).__name__
        raise
    finally:
        _LOG.append(entry)


nso.convert_expr_to_pddl = _rec_convert
nso.transform_expression = _rec_transform


# ------------------------------------------------------------------ the elimination decision (correspondence (c))
# every call of Precondition._simplify_numeric_preconditions is recorded: its conditions (exact constants), what
# extract_eliminated_expressions returned for each equality, the calls of simplify_equality / simplify_inequality it made (the
# assumption strings read back from the "mathematical" infix form) with their results, and what it returned
_ORIG_EXTRACT = ne.NumericalExpressionTree.extract_eliminated_expressions
_ORIG_SNP = pp.Precondition.__dict__["_simplify_numeric_preconditions"].__func__
_ORIG_PP_SI, _ORIG_PP_SE = pp.simplify_inequality, pp.simplify_equality
_ELIM = []          # the open records (a stack; the calls do not nest on the current tree)


def exact_number(v):
    """a float as a plain decimal with the value the shortest repr names (what the user wrote, up to 15-17 digits)"""
    from decimal import Decimal
    return format(Decimal(repr(float(v))), "f")


def exact_text_of(node):
    """prefix text of a library expression tree with exact constants (no rounding, no exponent form)"""
    if node.is_leaf:
        if isinstance(node.value, PDDLFunction):
            return node.value.untyped_representation
        return exact_number(node.value)
    return "(%s %s %s)" % (node.value, exact_text_of(node.children[0]), exact_text_of(node.children[1]))


def infix_to_prefix(text):
    """the fully parenthesised infix form of NumericalExpressionTree.to_mathematical() -> prefix text with exact constants"""
    toks = _tokens(text)
    pos = [0]

    def is_num(t):
        try:
            float(t)
            return True
        except ValueError:
            return False

    def item():
        t = toks[pos[0]]
        pos[0] += 1
        if t != "(":
            if not is_num(t):
                raise ValueError("unexpected token %r in %r" % (t, text))
            return exact_number(float(t))
        nxt = toks[pos[0]]
        if nxt != "(" and not is_num(nxt):
            # a function: ( name argument ... )
            parts = []
            while toks[pos[0]] != ")":
                parts.append(toks[pos[0]])
                pos[0] += 1
            pos[0] += 1
            return "(" + " ".join(parts) + ")"
        left = item()
        op = toks[pos[0]]
        pos[0] += 1
        if op not in ARITH:
            raise ValueError("operator expected, found %r in %r" % (op, text))
        right = item()
        if toks[pos[0]] != ")":
            raise ValueError("')' expected in %r" % text)
        pos[0] += 1
        return "(%s %s %s)" % (op, left, right)
    out = item()
    if pos[0] != len(toks):
        raise ValueError("trailing text in %r" % text)
    return out


def assumption_pairs(assumptions):
    out = []
    for a in assumptions:
        try:
            l, r = a.split(" = ")
            out.append([infix_to_prefix(l), infix_to_prefix(r)])
        except Exception as ex:  # noqa
            out.append(["?unreadable " + repr(ex)[:80], a])
    return out


def _rec_extract(self):
    rec = _ELIM[-1] if _ELIM else None
    r = _ORIG_EXTRACT(self)
    if rec is not None:
        try:
            rec["extracted"].append(None if r is None else [exact_text_of(r[0].root), exact_text_of(r[1].root)])
        except Exception as ex:  # noqa
            rec["extracted"].append(["?unreadable " + repr(ex)[:80], ""])
    return r


def _rec_pp_si(complex_numeric_expression, inequality_operator, assumptions=[], decimal_digits=nso.DEFAULT_DECIMAL_DIGITS):
    rec = _ELIM[-1] if _ELIM else None
    call = {"ineq": True, "assumptions": assumption_pairs(assumptions)}
    if rec is not None:
        rec["calls"].append(call)
    try:
        r = _ORIG_PP_SI(complex_numeric_expression, inequality_operator, assumptions, decimal_digits=decimal_digits)
    except Exception as ex:
        if rec is not None:
            rec["calls"].pop()
        raise
    call["result"] = r
    return r


def _rec_pp_se(equation, decimal_digits=nso.DEFAULT_DECIMAL_DIGITS):
    rec = _ELIM[-1] if _ELIM else None
    call = {"ineq": False, "assumptions": []}
    if rec is not None:
        rec["calls"].append(call)
    try:
        r = _ORIG_PP_SE(equation, decimal_digits=decimal_digits)
    except Exception as ex:
        if rec is not None:
            rec["calls"].pop()
        raise
    call["result"] = r
    return r


def _rec_snp(numeric_preconditions, decimal_digits=pp.DEFAULT_DECIMAL_DIGITS):
    rec = {"kind": "elim", "digits": decimal_digits, "extracted": [], "calls": []}
    try:
        rec["conds"] = [exact_text_of(t.root) for t in numeric_preconditions]
    except Exception as ex:  # noqa
        rec["conds"] = None
    _ELIM.append(rec)
    try:
        out = _ORIG_SNP(numeric_preconditions, decimal_digits)
        rec["out"] = list(out)
        return out
    except Exception as ex:
        rec["raised"] = type(ex).__name__
        raise
    finally:
        _ELIM.pop()
        _LOG.append(rec)


ne.NumericalExpressionTree.extract_eliminated_expressions = _rec_extract
pp.simplify_inequality = _rec_pp_si
pp.simplify_equality = _rec_pp_se
pp.Precondition._simplify_numeric_preconditions = staticmethod(_rec_snp)


# ------------------------------------------------------------------ input handling
def parse_prefix(text):
    return PDDLTokenizer(pddl_str=text).parse()


def infix(ast):
    """the same rendering as NumericalExpressionTree.to_mathematical, from the token tree, keeping the
    number texts as written"""
    if isinstance(ast, str):
        return ast
    if ast[0] in ARITH + CMP and len(ast) == 3:
        return "(%s %s %s)" % (infix(ast[1]), ast[0], infix(ast[2]))
    return "(%s %s)" % (ast[0], " ".join(ast[1:]))


def functions_of(ast, acc):
    if isinstance(ast, str):
        return acc
    if ast[0] in ARITH + CMP and len(ast) == 3:
        functions_of(ast[1], acc)
        functions_of(ast[2], acc)
        return acc
    name, n = ast[0], len(ast) - 1
    if name not in acc or len(acc[name].signature) < n:
        acc[name] = PDDLFunction(name=name, signature={"?p%d" % i: OBJ for i in range(n)})
    return acc


def tree_of(text):
    ast = parse_prefix(text)
    fns = functions_of(ast, {})
    return ne.NumericalExpressionTree(ne.construct_expression_tree(ast, fns)), fns


def reader_accepts(text, top_is_condition=True):
    """the library's own reader (tokenizer + construct_expression_tree + calculate on a zero state) accepts
    the printed text"""
    try:
        ast = parse_prefix(text)
        fns = functions_of(ast, {})
        node = ne.construct_expression_tree(ast, fns)
        for n in ne.NumericalExpressionTree(node):
            if n.is_leaf and isinstance(n.value, PDDLFunction):
                n.value.set_value(1.0)
            elif not n.is_leaf and n.value not in (ARITH + CMP):
                return False
        return True
    except Exception:  # noqa
        return False


def run(job):
    """job: entry in expr | ineq | eq | tree | pre | print; digits; conds (prefix texts); assumptions (prefix
    texts of equalities, entry ineq only)"""
    del _LOG[:]
    del _CALLS[:]
    entry, d = job["entry"], job["digits"]
    out = {}
    try:
        if entry == "expr":
            res = nso.simplify_complex_numeric_expression(infix(parse_prefix(job["conds"][0])), decimal_digits=d)
            outs = [res]
        elif entry == "ineq":
            ast = parse_prefix(job["conds"][0])
            assumptions = []
            for a in job.get("assumptions", []):
                aa = parse_prefix(a)
                assumptions.append("%s = %s" % (infix(aa[1]), infix(aa[2])))
            res = nso.simplify_inequality(infix(ast), ast[0], assumptions, decimal_digits=d)
            outs = [] if res is None else [res]
        elif entry == "eq":
            ast = parse_prefix(job["conds"][0])
            res = nso.simplify_equality("%s = %s" % (infix(ast[1]), infix(ast[2])), decimal_digits=d)
            outs = [] if res is None else [res]
        elif entry == "tree":
            t, _ = tree_of(job["conds"][0])
            outs = [t.simplify_complex_numerical_pddl_expression(decimal_digits=d)]
        elif entry == "pre":
            trees = [tree_of(c)[0] for c in job["conds"]]
            outs = pp.Precondition._simplify_numeric_preconditions(trees, decimal_digits=d)
        elif entry in ("print", "or", "str"):
            # Precondition.print(should_simplify=True) of a flat conjunction / disjunction; "str": str(precondition), i.e. the
            # default number of decimals
            head = "or" if entry == "or" else "and"
            pre = _flat_precondition(head, job["conds"])
            text = str(pre) if entry == "str" else pre.print(should_simplify=True, decimal_digits=d)
            out["printed"] = text
            ast = parse_prefix(text)
            outs = None
        elif entry == "nested":
            return run_nested(job)
        else:
            raise RuntimeError("unknown entry " + entry)
        if entry in ("print", "or", "str"):
            out["ok"] = [text]
            out["reader_ok"] = all(reader_accepts(_show(c)) for c in ast[1:]) and ast[0] == head
        else:
            out["ok"] = outs
            out["reader_ok"] = all(isinstance(o, str) and reader_accepts(o) for o in outs)
    except Exception as ex:  # noqa
        out["raised"] = type(ex).__name__
        out["msg"] = str(ex)[:200]
    out["glue"] = list(_LOG)
    try:
        out["hints"] = make_hints(job, out)
    except Exception as ex:  # noqa
        out["hints"] = []
        out["hints_error"] = repr(ex)
    return out


MAX_HINTS = 24


def _flat_precondition(head, conds, universal=False):
    pre = pp.UniversalPrecondition("?q", OBJ, head) if universal else pp.Precondition(head)
    trees = [tree_of(c)[0] for c in conds]
    for t in trees:
        pre.add_condition(t)
    pre.operands = list(trees)  # fixed iteration order (the attribute is only iterated)
    return pre


def _group_of(ast_node):
    """the comparisons printed directly under an (and ...) / (or ...) node"""
    return [_show(c) for c in ast_node[1:] if isinstance(c, list) and c and c[0] in CMP]


def group_result(head, conds, printed_conds, digits, name=None):
    """one printed group (the numeric conditions directly under one and / or node) as an end-to-end case of its own"""
    text = "(%s %s)" % (head, " ".join(printed_conds))
    g = {"name": name, "entry": "or" if head == "or" else "print", "digits": digits, "conds": conds, "ok": [text],
         "reader_ok": all(reader_accepts(c) for c in printed_conds)}
    try:
        g["hints"] = make_hints({"entry": g["entry"], "conds": conds}, g)
    except Exception as ex:  # noqa
        g["hints"], g["hints_error"] = [], repr(ex)
    return g


def run_nested(job):
    """a compound precondition: numeric conditions at the top level (a conjunction), inside a nested (or ...) and inside a
    universally quantified (and ...) / (or ...); printed through CompoundPrecondition.print (or str()); every group is
    returned as a case of its own.  job: groups = {"top": [...], "or": [...], "forall": [...]}, forall_head, via"""
    del _LOG[:]
    out = {}
    d = job["digits"]
    g = job["groups"]
    try:
        comp = pp.CompoundPrecondition()
        top = _flat_precondition("and", g["top"])
        comp.root = top
        kids = []
        if g.get("or"):
            kids.append(_flat_precondition("or", g["or"]))
        if g.get("forall"):
            kids.append(_flat_precondition(job.get("forall_head", "and"), g["forall"], universal=True))
        top.operands = list(top.operands) + kids
        text = str(comp) if job.get("via") == "str" else comp.print(should_simplify=True, decimal_digits=d)
        out["printed"] = text
        ast = parse_prefix(text)
        if ast[0] != "and":
            raise RuntimeError("printed compound precondition is not a conjunction")
        groups = [group_result("and", g["top"], _group_of(ast), d, "top")]
        ors = [c for c in ast[1:] if isinstance(c, list) and c and c[0] == "or"]
        fas = [c for c in ast[1:] if isinstance(c, list) and c and c[0] == "forall"]
        if g.get("or"):
            if len(ors) != 1:
                raise RuntimeError("expected one printed (or ...), found %d" % len(ors))
            groups.append(group_result("or", g["or"], _group_of(ors[0]), d, "or"))
        elif ors:
            raise RuntimeError("an (or ...) was printed that the input does not have")
        if g.get("forall"):
            if len(fas) != 1 or len(fas[0]) != 3 or fas[0][2][0] != job.get("forall_head", "and"):
                raise RuntimeError("expected one printed (forall (?q - object) (%s ...))" % job.get("forall_head", "and"))
            groups.append(group_result(fas[0][2][0], g["forall"], _group_of(fas[0][2]), d, "forall"))
        elif fas:
            raise RuntimeError("a (forall ...) was printed that the input does not have")
        out["ok"] = [text]
        out["groups"] = groups
        out["reader_ok"] = all(x["reader_ok"] for x in groups)
    except Exception as ex:  # noqa
        out["raised"] = type(ex).__name__
        out["msg"] = str(ex)[:200]
    out["glue"] = list(_LOG)
    out["hints"] = []
    return out


def make_hints(job, out):
    if "ok" not in out:
        return []
    table = hint_table()
    computed = []
    if job["entry"] in ("expr", "tree"):
        try:
            computed = computed_hints(job, out)
        except Exception as ex:  # noqa
            out["computed_hints_error"] = repr(ex)[:200]
    if job["entry"] == "expr":
        hs = list(computed)
        lists = table.get(_show(_sexp(out["ok"][0])), [])
        for level in range(len(LEVELS)):
            for hl in lists:
                if hl[level] not in hs:
                    hs.append(hl[level])
        return hs[:MAX_HINTS]
    conds = out["ok"]
    if job["entry"] in ("print", "or", "str"):
        e = _sexp(out["ok"][0])
        conds = [_show(c) for c in e[1:]]
    extra = []
    if job["entry"] == "tree":
        extra = [_show(_sexp(job["conds"][0])[2])]
    per_cond = [computed] + [cond_hints(c, table, extra) for c in conds]
    # round robin over the printed conditions, so that the cap never starves one of them
    hints, k = [], 0
    while len(hints) < MAX_HINTS and any(k < len(pc) for pc in per_cond):
        for pc in per_cond:
            if k < len(pc) and pc[k] not in hints and len(hints) < MAX_HINTS:
                hints.append(pc[k])
        k += 1
    for c in job["conds"]:
        c = _show(_sexp(c))
        if c not in hints:
            hints.append(c)
    return hints


def computed_hints(job, out):
    """expr / tree: the left side the library printed is simplify() of the input's left side, so the exact values of its Float
    atoms can be computed from the input ([exactify]) instead of guessed from the floats"""
    ast = _sexp(job["conds"][0])
    is_tree = job["entry"] == "tree"
    left_in = ast[1] if is_tree else ast
    printed = _sexp(out["ok"][0])
    left_out = _show(printed[1]) if is_tree else _show(printed)
    hs = []
    for expr, symvars, d, flag, r in _CALLS:
        if not isinstance(r, str) or _show(_sexp(r)) != left_out:
            continue
        if not any(isinstance(a, Mul) and any(isinstance(b, Add) for b in a.args) for a in sympy.preorder_traversal(expr)):
            continue                      # a plain sum of monomials is validated coefficientwise, no hint needed
        ex = exactify(expr, symvars, left_in)
        if ex is None:
            continue
        t, h = hint_convert(expr, {v: k for k, v in (symvars or {}).items()}, d, flag, 16, ex)
        if (t if t else "0") != r:
            continue
        if is_tree:
            for right in (_show(ast[2]), _show(printed[2])):
                c = "(%s %s %s)" % (ast[0], h, right)
                if c not in hs:
                    hs.append(c)
        elif h not in hs:
            hs.append(h)
    return hs


def _show(e):
    if isinstance(e, str):
        return e
    return "(" + " ".join(_show(x) for x in e) + ")"


def facts(job):
    """library / sympy facts the model encodes, re-read on every run"""
    src = open(nso.__file__).read()
    m = re.search(r're\.findall\(r"([^"]*)", expression\)', src)
    m2 = re.search(r're\.sub\(r"([^"]*)", "", var\)', src)
    return {"sympy": sympy.__version__, "default_digits": nso.DEFAULT_DECIMAL_DIGITS,
            "pre_default_digits": pp.DEFAULT_DECIMAL_DIGITS,
            "fluent_regex": m.group(1) if m else None, "strip_regex": m2.group(1) if m2 else None,
            "float_str": [str(Float(0.125)), str(Float(2.675)), str(Float(1234.56789)), str(Float(1e-5))],
            "float_fmt": [format(Float(0.125), ".2f"), format(Float(2.675), ".2f"), format(Float(-0.004), ".2f"),
                          format(Float(2.5), ".0f"), format(Float(Rational(1, 8)), ".2f"), format(Float(Rational(-7, 8823)), ".3f")]}


# ------------------------------------------------------------------ shipped fixtures
import glob
import logging
import os
from pathlib import Path


def fixtures(job):
    """numeric condition sets of the actions of every shipped domain that parses (top-level conjunctions and nested ones)"""
    logging.disable(logging.CRITICAL)
    from pddl_plus_parser.lisp_parsers import DomainParser
    from pddl_plus_parser.models.numerical_expression import NumericalExpressionTree
    from pddl_plus_parser.models.pddl_precondition import Precondition
    import pddl_plus_parser
    root = Path(pddl_plus_parser.__file__).resolve().parent.parent / "tests"
    seen, out = set(), []

    def walk(pre, acc):
        nums = [o for o in pre.operands if isinstance(o, NumericalExpressionTree)]
        if nums and pre.binary_operator == "and":
            acc.append(nums)
        for o in pre.operands:
            if isinstance(o, Precondition):
                walk(o, acc)
    files = sorted(glob.glob(str(root / "**" / "*.pddl"), recursive=True))
    parsed = 0
    for f in files:
        try:
            d = DomainParser(Path(f)).parse_domain()
        except BaseException:  # noqa
            continue
        if not getattr(d, "actions", None):
            continue
        parsed += 1
        for name, a in d.actions.items():
            acc = []
            walk(a.preconditions.root, acc)
            for nums in acc:
                texts = sorted(x.to_pddl(6) for x in nums)
                key = tuple(texts)
                if key in seen:
                    continue
                seen.add(key)
                out.append({"file": os.path.relpath(f, str(root)), "action": name, "conds": texts})
    return {"files": len(files), "parsed_domains": parsed, "sets": out}


def fixture_nodes(job):
    """Precondition.print(should_simplify=True) on the shipped domains' OWN precondition objects: every and / or node (also
    inside forall) of every action of every domain that parses and has numeric conditions directly under it; the input
    conditions are the node's numeric operands printed with exact constants.  job: digits (list to cycle through)"""
    logging.disable(logging.CRITICAL)
    from pddl_plus_parser.lisp_parsers import DomainParser
    from pddl_plus_parser.models.numerical_expression import NumericalExpressionTree
    from pddl_plus_parser.models.pddl_precondition import Precondition
    import pddl_plus_parser
    root = Path(pddl_plus_parser.__file__).resolve().parent.parent / "tests"
    digits = job.get("digits") or [4]
    limit = job.get("max_conds", 8)
    seen, out, k = set(), [], 0

    def nodes(pre, acc):
        if any(isinstance(o, NumericalExpressionTree) for o in pre.operands):
            acc.append(pre)
        for o in pre.operands:
            if isinstance(o, Precondition):
                nodes(o, acc)
    files = sorted(glob.glob(str(root / "**" / "*.pddl"), recursive=True))
    parsed = 0
    for f in files:
        try:
            dom = DomainParser(Path(f)).parse_domain()
        except BaseException:  # noqa
            continue
        if not getattr(dom, "actions", None):
            continue
        parsed += 1
        for name, a in dom.actions.items():
            acc = []
            nodes(a.preconditions.root, acc)
            for node in acc:
                nums = [o for o in node.operands if isinstance(o, NumericalExpressionTree)]
                conds = sorted(x.to_pddl(None) for x in nums)
                key = (node.binary_operator, tuple(conds))
                if key in seen or len(conds) > limit:
                    continue
                seen.add(key)
                d = digits[k % len(digits)]
                k += 1
                del _LOG[:]
                rec = {"file": os.path.relpath(f, str(root)), "action": name, "head": node.binary_operator, "digits": d}
                try:
                    text = node.print(should_simplify=True, decimal_digits=d)
                    ast = parse_prefix(text)
                    body = ast[2] if ast[0] == "forall" else ast
                    if body[0] != node.binary_operator:
                        raise RuntimeError("printed node has another operator")
                    rec.update(group_result(body[0], conds, _group_of(body), d))
                except Exception as ex:  # noqa
                    rec.update({"entry": "or" if node.binary_operator == "or" else "print", "conds": conds,
                                "raised": type(ex).__name__, "msg": str(ex)[:200], "hints": []})
                rec["glue"] = list(_LOG)
                out.append(rec)
    return {"files": len(files), "parsed_domains": parsed, "nodes": out}
