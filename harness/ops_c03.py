"""Implementation driver for C03 (Operator.apply): successor states under observed and forced visiting orders of the
effect collections, the refusal (exception class), the forced successor (allow_inapplicable_actions=True), and a trace
of which conditional / universal effect groups fired (for the input-distribution table only).

Nothing in /repo is edited: creation order of ConditionalEffect / UniversalEffect objects is stamped by wrapping their
__init__ at import time in this worker process (parse order = creation order), and GroundedEffect.antecedents_hold is
wrapped to log its answers.  If a refactoring makes the stamps unavailable the op reports obs_order=False and the
check falls back to comparing only where the result cannot depend on the order."""
import itertools
import random

from pddl_plus_parser.lisp_parsers import DomainParser, ProblemParser
from pddl_plus_parser.models import Operator, State
import pddl_plus_parser.models.conditional_effect as _CE
import pddl_plus_parser.models.grounded_effect as _GE

from ops_core import ForcedOrder, exc, number_table, read_state_text, write_tmp

_seq = itertools.count()


def _stamp(cls):
    orig = cls.__init__

    def init(self, *a, **k):
        orig(self, *a, **k)
        self._verif_seq = next(_seq)
    cls.__init__ = init


try:
    _stamp(_CE.ConditionalEffect)
    _stamp(_CE.UniversalEffect)
except Exception:  # noqa
    pass

TRACE = None
GROUP_IDS = set()

try:
    _orig_hold = _GE.GroundedEffect.antecedents_hold

    def _hold(self, *a, **k):
        r = _orig_hold(self, *a, **k)
        if TRACE is not None:
            TRACE.append((self.grounded_antecedents is not None, bool(r), id(self) not in GROUP_IDS,
                          len(self.grounded_numeric_effects), len(self.grounded_discrete_effects)))
        return r
    _GE.GroundedEffect.antecedents_hold = _hold
except Exception:  # noqa
    pass


def numeric_config(job):
    import pddl_plus_parser.models.numerical_expression as ne
    return {"epsilon": float(ne.EPSILON).hex()}


def nth_permutation(items, k):
    """k-th permutation (lexicographic over positions) of items; k taken modulo n!"""
    items = list(items)
    n = len(items)
    out = []
    fact = 1
    for i in range(2, n + 1):
        fact *= i
    k %= max(fact, 1)
    for i in range(n, 0, -1):
        fact //= i
        j, k = divmod(k, fact) if fact else (0, 0)
        out.append(items.pop(j))
    return out


def canonical_indices(op):
    """index of every grounded group (0 = unconditional, i = i-th 'when' in the text) and of every universal effect,
    or None when the implementation no longer lets us tell"""
    try:
        ces = sorted(op.action.conditional_effects, key=lambda c: c._verif_seq)
        ues = sorted(op.action.universal_effects, key=lambda u: u._verif_seq)
        gi = {}
        for ge in op.grounded_effects:
            if ge.grounded_antecedents is None:
                gi[id(ge)] = 0
            else:
                src = ge.grounded_antecedents._lifted_precondition
                hit = [i for i, ce in enumerate(ces) if ce.antecedents is src]
                if len(hit) != 1:
                    return None
                gi[id(ge)] = 1 + hit[0]
        ui = {id(ue): i for i, ue in enumerate(ues)}
        if sorted(gi.values()) != list(range(len(gi))):
            return None
        return gi, ui
    except Exception:  # noqa
        return None


def arrange(op, pr):
    """ground, then fix the iteration order of the effect collections as the probe asks; returns (order, uorder, observed)"""
    op.ground()
    groups = list(op.grounded_effects)
    univ = list(op.lifted_universal_effects)
    idx = canonical_indices(op)
    mode = pr.get("perm")          # None: leave the hash order; int k: k-th permutation of the canonical order
    if idx is not None:
        gi, ui = idx
        if mode is not None:
            groups = nth_permutation(sorted(groups, key=lambda g: gi[id(g)]), mode)
            univ = nth_permutation(sorted(univ, key=lambda u: ui[id(u)]), pr.get("uperm", mode))
        order, uorder, observed = [gi[id(g)] for g in groups], [ui[id(u)] for u in univ], True
    else:
        if mode is not None:
            rnd = random.Random(mode)
            rnd.shuffle(groups)
            rnd.shuffle(univ)
        order, uorder, observed = list(range(len(groups))), list(range(len(univ))), False
    inner = pr.get("inner_seed")
    if inner:
        rnd = random.Random(inner)
        for g in groups:
            for attr in ("grounded_discrete_effects", "grounded_numeric_effects"):
                items = list(getattr(g, attr))
                rnd.shuffle(items)
                setattr(g, attr, ForcedOrder(items))
    op.grounded_effects = ForcedOrder(groups)
    op.lifted_universal_effects = ForcedOrder(univ)
    return order, uorder, observed


def summarise(trace):
    out = {"when_fired": 0, "when_not": 0, "univ_fired": 0, "univ_not": 0, "numeric_applied": 0, "discrete_applied": 0}
    for has_ante, res, is_univ, nnum, ndisc in trace:
        if is_univ:
            out["univ_fired" if res else "univ_not"] += 1
        elif has_ante:
            out["when_fired" if res else "when_not"] += 1
        if res:
            out["numeric_applied"] += nnum
            out["discrete_applied"] += ndisc
    return out


def object_table(problem, noobjs):
    """what the Operator is given as problem_objects: the problem's own table (an EMPTY dict when the problem declares no
    object), or None when the caller asks for an Operator built without an object table"""
    return None if noobjs else problem.objects


def run_probe(domain, problem, pr, noobjs=False):
    global TRACE, GROUP_IDS
    r = {}
    objects = object_table(problem, noobjs)

    def fresh_state():
        return State({k: set(v) for k, v in problem.initial_state_predicates.items()},
                     {k: v.copy() for k, v in problem.initial_state_fluents.items()}, is_init=True)
    action = domain.actions.get(pr["action"])
    if action is None:
        e = exc(KeyError(pr["action"]))
        return {"app": e, "succ": e, "forced": e, "valerr": False, "order": [], "uorder": [], "obs_order": False}
    try:
        op = Operator(action, domain, list(pr["args"]), objects)
        r["app"] = {"value": bool(op.is_applicable(fresh_state()))}
    except Exception as e:  # noqa
        r["app"] = exc(e)
    r["valerr"] = False
    r["order"], r["uorder"], r["obs_order"] = [], [], False
    try:
        op = Operator(action, domain, list(pr["args"]), objects)
        r["order"], r["uorder"], r["obs_order"] = arrange(op, pr)
        GROUP_IDS = {id(g) for g in op.grounded_effects}
        TRACE = []
        try:
            nxt = op.apply(fresh_state())
        finally:
            r["trace"] = summarise(TRACE)
            TRACE = None
        r["succ"] = {"value": read_state_text(nxt.serialize())}
    except Exception as e:  # noqa
        r["succ"] = exc(e)
        r["valerr"] = isinstance(e, ValueError)
    try:
        op = Operator(action, domain, list(pr["args"]), objects)
        pr2 = dict(pr)
        o2, u2, obs2 = arrange(op, pr2)
        if pr.get("perm") is None and obs2 and r["obs_order"] and (o2 != r["order"] or u2 != r["uorder"]):
            # the hash order differs between two groundings: re-impose the first one
            gi, ui = canonical_indices(op)
            op.grounded_effects = ForcedOrder(sorted(op.grounded_effects, key=lambda g: r["order"].index(gi[id(g)])))
            op.lifted_universal_effects = ForcedOrder(sorted(op.lifted_universal_effects, key=lambda u: r["uorder"].index(ui[id(u)])))
        elif not obs2 or not r["obs_order"]:
            r["obs_order"] = False
        nxt = op.apply(fresh_state(), allow_inapplicable_actions=True)
        r["forced"] = {"value": read_state_text(nxt.serialize())}
    except Exception as e:  # noqa
        r["forced"] = exc(e)
    return r


def _canon(st):
    """a read-back state as a comparable value (sets of facts, map of fluents)"""
    if "value" not in st:
        return ("raised", st.get("raised"))
    v = st["value"]
    return (sorted((p, tuple(a)) for p, a in v["facts"]), sorted((f, tuple(a), x) for f, a, x in v["fluents"]))


def run_seq(domain, problems, sq, noobjs=False):
    """a call SEQUENCE on one Operator object.  sq: action, args, start (state index), perm/uperm/inner_seed, steps
    [{src: None (the state the previous call returned; the state it was given when it raised) | j (a fresh copy of
    state j), allow}].  Every returned state is read back at once and a second time after the last call."""
    global TRACE, GROUP_IDS
    used = [sq["start"]] + [st["src"] for st in sq["steps"] if st["src"] is not None]
    for j in used:
        if isinstance(problems[j], dict):
            return {"problem_raised": problems[j]}

    def fresh_state(j):
        problem = problems[j]
        return State({k: set(v) for k, v in problem.initial_state_predicates.items()},
                     {k: v.copy() for k, v in problem.initial_state_fluents.items()}, is_init=True)
    out = {"order": [], "uorder": [], "obs_order": False, "steps": []}
    action = domain.actions.get(sq["action"])
    if action is None:
        e = exc(KeyError(sq["action"]))
        out["steps"] = [{"succ": e, "valerr": False} for _ in sq["steps"]]
        return out
    try:
        op = Operator(action, domain, list(sq["args"]), object_table(problems[sq["start"]], noobjs))
        out["order"], out["uorder"], out["obs_order"] = arrange(op, sq)
        GROUP_IDS = {id(g) for g in op.grounded_effects}
    except Exception as e:  # noqa
        out["steps"] = [{"succ": exc(e), "valerr": isinstance(e, ValueError)} for _ in sq["steps"]]
        return out
    cur = fresh_state(sq["start"])
    held = []
    for st in sq["steps"]:
        src = cur if st["src"] is None else fresh_state(st["src"])
        o = {"valerr": False}
        TRACE = []
        try:
            nxt = op.apply(src, allow_inapplicable_actions=bool(st["allow"]))
            o["succ"] = {"value": read_state_text(nxt.serialize())}
            held.append((o, nxt))
            cur = nxt
        except Exception as e:  # noqa
            o["succ"] = exc(e)
            o["valerr"] = isinstance(e, ValueError)
            cur = src
        finally:
            o["trace"] = summarise(TRACE)
            TRACE = None
        out["steps"].append(o)
    for o, state in held:
        try:
            late = {"value": read_state_text(state.serialize())}
        except Exception as e:  # noqa
            late = exc(e)
        if _canon(late) != _canon(o["succ"]):
            o["late"] = late
    return out


def world(job):
    """job: domain_text, states [problem_text], probes [{action, args, state (index), perm, uperm, inner_seed}],
    seqs [see run_seq], noobjs (bool: build every Operator with problem_objects=None)"""
    out = {"nums": number_table(job["domain_text"])}
    dpath = write_tmp(job["domain_text"], ".pddl")
    try:
        try:
            domain = DomainParser(dpath).parse_domain()
        except RecursionError as e:
            out["parse_raised"] = exc(e)
            return out
        except Exception as e:  # noqa
            out["parse_raised"] = exc(e)
            return out
        problems = []
        for ptxt in job["states"]:
            ppath = write_tmp(ptxt, ".pddl")
            try:
                problems.append(ProblemParser(ppath, domain).parse_problem())
            except Exception as e:  # noqa
                problems.append(exc(e))
            finally:
                ppath.unlink()
        res = []
        for pr in job["probes"]:
            pb = problems[pr["state"]]
            if isinstance(pb, dict):
                res.append({"problem_raised": pb})
            else:
                res.append(run_probe(domain, pb, pr, noobjs=bool(job.get("noobjs"))))
        out["probes"] = res
        out["seqs"] = [run_seq(domain, problems, sq, noobjs=bool(job.get("noobjs"))) for sq in job.get("seqs", [])]
        return out
    finally:
        dpath.unlink()


# ---------------------------------------------------------------- shipped fixtures: a guided random walk
def _candidates(domain, problem, state, rnd, per_action=40):
    """argument tuples likely to be applicable: parameters bound by unifying positive precondition literals with facts
    of the state (a generator of inputs only; nothing is concluded from it)"""
    from pddl_plus_parser.models import Predicate
    universe = list(problem.objects.items()) + list(domain.constants.items())
    facts = {}
    for preds in state.state_predicates.values():
        for gp in preds:
            facts.setdefault(gp.name, []).append(list(gp.object_mapping.values()))
    out = []
    for an, a in domain.actions.items():
        params = list(a.signature.items())
        pools = {p: [n for n, o in universe if o.type.is_sub_type(t)] for p, t in params}
        if not all(pools.values()) and params:
            continue
        lits = [c for c in a.preconditions.root.operands if isinstance(c, Predicate) and c.is_positive]
        for _ in range(per_action):
            binding = {}
            order = list(lits)
            rnd.shuffle(order)
            for lit in order:
                rows = [r for r in facts.get(lit.name, []) if len(r) == len(lit.signature) and
                        all(binding.get(p, v) == v and v in pools[p] for p, v in zip(lit.signature, r) if p in pools)]
                if rows and rnd.random() < 0.9:
                    row = rnd.choice(rows)
                    for p, v in zip(lit.signature, row):
                        if p in pools:
                            binding[p] = v
            args = [binding.get(p) or rnd.choice(pools[p]) for p, _ in params]
            out.append((an, args))
    rnd.shuffle(out)
    return out


def fixture_walk(job):
    """job: domain (path), problem (path), seed, steps -> the domain text, the objects and probes (state, action, args)"""
    from pathlib import Path
    domain = DomainParser(Path(job["domain"])).parse_domain()
    problem = ProblemParser(Path(job["problem"]), domain).parse_problem()
    rnd = random.Random(job["seed"])
    state = State(problem.initial_state_predicates, problem.initial_state_fluents, is_init=True)
    objs = [[n, o.type.name] for n, o in problem.objects.items()]
    probes, seen = [], set()
    for _ in range(job["steps"]):
        st = read_state_text(state.serialize())
        app, inapp = [], []
        for an, args in _candidates(domain, problem, state, rnd):
            if (an, tuple(args)) in seen and rnd.random() < 0.7:
                continue
            if len(app) >= 3 and len(inapp) >= 1:
                break
            try:
                ok = Operator(domain.actions[an], domain, list(args), problem.objects).is_applicable(state)
            except Exception:  # noqa
                continue
            (app if ok else inapp).append((an, args))
        chosen = app[:3] + inapp[:1]
        for an, args in chosen:
            seen.add((an, tuple(args)))
            probes.append({"state": st, "action": an, "args": list(args)})
        if not app:
            break
        # prefer an action with conditional / universal effects to advance
        app.sort(key=lambda c: -(len(domain.actions[c[0]].conditional_effects) + len(domain.actions[c[0]].universal_effects)))
        an, args = app[0] if rnd.random() < 0.6 else rnd.choice(app)
        state = Operator(domain.actions[an], domain, list(args), problem.objects).apply(state)
    return {"domain_text": open(job["domain"]).read(), "domain_name": domain.name, "objects": objs, "probes": probes}
