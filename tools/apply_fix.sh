#!/bin/bash
# usage: apply_fix.sh Dnn [Dnn ...]   — applies proposed_fixes/Dnn.diff to /repo, runs pinned + wider suites, commits with Dnn.msg
cd /verif/proposed_fixes || exit 2
for d in "$@"; do
  [ -f $d.diff ] && [ -f $d.msg ] || { echo "$d: missing diff/msg"; exit 2; }
  head -1 $d.msg | grep -q '^fix:' || { echo "$d: message does not start with fix:"; exit 2; }
  git -C /repo diff --quiet || { echo "/repo dirty"; exit 2; }
  git -C /repo apply $PWD/$d.diff || { echo "$d: does not apply"; exit 3; }
  out=$(/verif/tools/run_repo_tests.sh /repo 2>&1)
  p=$(echo "$out" | grep -A1 '== pinned' | tail -1 | grep -o '[0-9]* passed')
  w=$(echo "$out" | grep -A1 '== wider' | grep -o '[0-9]* passed' | tr '\n' ' ')
  bad=$(echo "$out" | grep -A1 '== wider' | grep -c 'failed\|error')
  if [ "$p" != "63 passed" ] || [ "$w" != "11 passed 88 passed 142 passed 32 passed " ] || [ "$bad" != 0 ]; then
    echo "$d: TESTS CHANGED: pinned=$p wider=$w"; echo "$out" | tail -12; git -C /repo checkout -- .; exit 4
  fi
  git -C /repo commit -qam "$(cat $d.msg)" && echo "$d committed $(git -C /repo rev-parse --short HEAD)"
done
