#!/usr/bin/env python3
"""Records the SHA-256 of every source file of the library (pddl_plus_parser/**/*.py) at /repo's current HEAD in
source_fingerprint.json.  The checks compare /repo's working tree with it: when a file differs (somebody edited the code the
models were fitted to) a quick check that found nothing runs a second time with another seed / hash seed before answering.
Re-run after every fix: commit to /repo:  python3-vt tools/gen_fingerprints.py"""
import hashlib, json, subprocess, sys
from pathlib import Path
ROOT = Path(__file__).resolve().parent.parent
REPO = Path("/repo")
files = {}
for p in sorted((REPO / "pddl_plus_parser").rglob("*.py")):
    files[str(p.relative_to(REPO))] = hashlib.sha256(p.read_bytes()).hexdigest()
head = subprocess.run(["git", "-C", str(REPO), "rev-parse", "--short", "HEAD"], capture_output=True, text=True).stdout.strip()
dirty = subprocess.run(["git", "-C", str(REPO), "status", "--porcelain", "--", "pddl_plus_parser"], capture_output=True, text=True).stdout.strip()
if dirty:
    print("refusing: /repo has uncommitted changes under pddl_plus_parser/:\n" + dirty); sys.exit(1)
(ROOT / "source_fingerprint.json").write_text(json.dumps({"repo_head": head, "files": files}, indent=1))
print("fingerprint of %d files at %s" % (len(files), head))
