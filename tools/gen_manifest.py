#!/usr/bin/env python3
"""Regenerates /verif/MANIFEST.json from the table below (kept valid against the schema at all times)."""
import json
import sys
from pathlib import Path

ROOT = Path(__file__).resolve().parent.parent
ALL = ["C%02d" % i for i in range(1, 21)]

NOTE_COMMON = ("Trusted: Coq 8.16.1 kernel + VM (vm_compute); no axioms declared (Print Assumptions re-run by every check); the hand-written "
               "Gallina model (modelled, not verified) tied to /repo by the generated-case correspondence of each run; the Python harness; "
               "CPython semantics as encoded in the model (DESIGN.md section 6 and appendix A).")

CLAIMED = {}
for frag in sorted((ROOT / "manifest.d").glob("C*.json")):
    CLAIMED[frag.stem] = json.loads(frag.read_text())

NOT_YET = "machinery under construction in this round; not yet claimed"


def main():
    checks = []
    for pid in ALL:
        if pid not in CLAIMED:
            continue
        c = CLAIMED[pid]
        checks.append({
            "property_id": pid,
            "quick_cmd": "./check %s --tier quick" % pid,
            "thorough_cmd": "./check %s --tier thorough" % pid,
            "evidence_file": "evidence/%s.json" % pid,
            "replay_cmd_template": "./check %s --replay {path}" % pid,
            "engine": "coq-model-correspondence",
            "level_claimed": {"category": c.get("category", "proof"), "text": c["text"], "design_ref": "DESIGN.md section " + c["design"]},
            "level_note": c.get("note") or NOTE_COMMON,
            "technique": c["technique"],
        })
    m = {
        "version": 1,
        "setup_cmd": "./setup.sh",
        "hooks": {
            "guard": "PDDL_PLUS_PARSER_VERIF",
            "enable": "no source hooks are used; checks run /repo's current working tree with PYTHONPATH=/repo",
            "baseline_off_cmd": "cd /repo && /venv/bin/python -m pytest -ra -q -p no:cacheprovider --timeout=900 --continue-on-collection-errors",
            "source_commits": [],
            "add_only": True,
        },
        "engines": [{
            "name": "coq-model-correspondence", "path": "coq/ + harness/",
            "serves_properties": sorted(CLAIMED),
            "kind_free_text": "Coq 8.16.1 development (Spec, executable Model, Proofs, Props) + Python harness that runs /repo on generated inputs and evaluates model/spec on the same inputs inside Coq",
        }],
        "checks": checks,
        "not_applicable": [{"property_id": p, "reason": NOT_YET} for p in ALL if p not in CLAIMED],
        "notes": "Single entry point ./check <Cnn> [--tier quick|thorough] [--seed N] [--replay file]; known findings in known_findings.json; replays under work/<Cnn>/replays/.",
    }
    (ROOT / "MANIFEST.json").write_text(json.dumps(m, indent=1))
    try:
        import jsonschema
        jsonschema.validate(m, json.load(open("/root/.vp/MANIFEST.schema.json")))
        print("MANIFEST valid;", len(checks), "checks")
    except ImportError:
        print("written (jsonschema not available to validate)")


if __name__ == "__main__":
    main()
