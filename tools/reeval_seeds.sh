#!/bin/sh
# Re-evaluates kept seeded changes against the CURRENT /repo HEAD and the current checks.
# usage: tools/reeval_seeds.sh C01 C02 ...   (properties; default all)    output: one line per seed
cd "$(dirname "$0")/.."
for i in 01 02 03 04 05 06 07 08 09 10 11 12 13 14 15 16 17 18 19 20; do mkdir -p /tmp/seedout_C$i /tmp/seedout2_C$i /tmp/seedout3_C$i; done
PROPS=${*:-"C01 C02 C03 C04 C05 C06 C07 C08 C09 C10 C11 C12 C13 C14 C15 C16 C17 C18 C19 C20"}
for P in $PROPS; do
  for D in seeded/${P}_*; do
    [ -f $D/patch.diff ] || continue
    SID=$(basename $D)
    if [ -n "$ONLY" ]; then case " $ONLY " in *" $SID "*) ;; *) continue;; esac; fi
    S=$(python3-vt -c "import json; print(json.load(open('$D/meta.json')).get('summary',''))")
    N=$(python3-vt -c "import json; print(json.load(open('$D/meta.json')).get('needs_to_manifest',''))")
    CH=$(python3-vt -c "import json; print(','.join(json.load(open('$D/meta.json')).get('checks',{}).keys()) or '$P')")
    EXTRA=$(ls $D/* | grep -v '/patch.diff$\|/demo.py$\|/meta.json$' | tr '\n' ',')
    mkdir -p work/reeval; cp $D/patch.diff work/reeval/$SID.patch; cp $D/demo.py work/reeval/$SID.demo.py
    for x in $(echo $EXTRA | tr ',' ' '); do cp $x work/reeval/ 2>/dev/null; done
    python3-vt tools/eval_seed.py $P $SID work/reeval/$SID.patch work/reeval/$SID.demo.py --summary "$S" --needs "$N" --extra "$EXTRA" --checks "$CH" > work/allrun/reeval_$SID.json 2>&1
    python3-vt -c "
import json
t=open('work/allrun/reeval_$SID.json').read()
try:
    m=json.loads(t[t.index('{'):])
    print('$SID', 'valid' if m.get('valid_seed') else 'INVALID(applies=%s pinned=%s demo=%s/%s)' % (m.get('patch_applies'), m.get('pinned_still_pass'), m.get('demo_unchanged_exit'), m.get('demo_changed_exit')), {k:(v['exit'],v['violation_lines'],'concrete' if v['concrete'] else 'nfi') for k,v in (m.get('checks') or {}).items()})
except Exception as e:
    print('$SID', 'ERROR', e)
"
  done
done
