#!/usr/bin/env python3
"""Development-time tool: evaluates one seeded change (written by an independent sub-agent) against the registered check.
usage: eval_seed.py <Cnn> <seed-id> <patch.diff> <demo.py> [--summary text] [--needs text] [--tier quick]
 - makes a scratch worktree of /repo HEAD under /tmp, applies the patch there (never in /repo)
 - pinned suite: the set of passed tests must contain the 63 of the unchanged tree
 - demo: PASS (exit 0) on /repo, FAIL (exit 1) on the changed tree
 - VERIF_REPO=<worktree> VERIF_RUN_TAG=seed_<id> ./check Cnn : expected exit 1 + VIOLATION line
 - writes /verif/seeded/<seed-id>/{patch.diff,demo.py,meta.json}, removes the worktree."""
import argparse, json, os, re, shutil, subprocess, sys, time
from pathlib import Path
ROOT = Path(__file__).resolve().parent.parent

def sh(cmd, **kw):
    return subprocess.run(cmd, shell=True, capture_output=True, text=True, **kw)

def passed_set(tree):
    xml = "/tmp/junit_%d.xml" % os.getpid()
    sh("cd %s && PYTHONPATH=%s /venv/bin/python -m pytest -q -p no:cacheprovider --timeout=900 --continue-on-collection-errors --junitxml=%s" % (tree, tree, xml))
    import xml.etree.ElementTree as ET
    ok = set()
    for tc in ET.parse(xml).getroot().iter("testcase"):
        if not list(tc):
            ok.add(tc.get("classname") + "::" + tc.get("name"))
    os.unlink(xml)
    sh("rm -f %s/tests/exporters_tests/test_numeric_trajectory %s/tests/exporters_tests/test_trajectory" % (tree, tree))
    return ok

def main():
    ap = argparse.ArgumentParser()
    ap.add_argument("prop"); ap.add_argument("sid"); ap.add_argument("patch"); ap.add_argument("demo")
    ap.add_argument("--summary", default=""); ap.add_argument("--needs", default=""); ap.add_argument("--tier", default="quick")
    ap.add_argument("--extra", default="", help="comma-separated helper files the demo imports/reads (copied next to demo.py)")
    ap.add_argument("--checks", default=None, help="comma-separated list of properties whose checks to run (default: prop)")
    a = ap.parse_args()
    wt = "/tmp/evalseed_%s" % a.sid
    sh("git -C /repo worktree remove --force %s" % wt)
    r = sh("git -C /repo worktree add --detach %s" % wt)
    assert r.returncode == 0, r.stderr
    meta = {"property": a.prop, "id": a.sid, "summary": a.summary, "needs_to_manifest": a.needs,
            "repo_head": sh("git -C /repo rev-parse --short HEAD").stdout.strip(), "ran": []}
    try:
        r = sh("git -C %s apply %s" % (wt, os.path.abspath(a.patch)))
        if r.returncode != 0:
            # later fix: commits moved the context: try a three-way merge against the blobs the patch names
            r = sh("git -C %s apply --3way %s" % (wt, os.path.abspath(a.patch)))
            if r.returncode == 0:
                sh("git -C %s reset -q" % wt)
                meta["patch_applied_with"] = "git apply --3way"
        meta["patch_applies"] = r.returncode == 0
        if r.returncode != 0:
            meta["apply_error"] = r.stderr[-500:]
            return finish(a, meta, None)
        base = passed_set("/repo"); mut = passed_set(wt)
        meta["pinned_passed_unchanged"] = len(base); meta["pinned_passed_changed"] = len(mut)
        meta["pinned_still_pass"] = base <= mut
        meta["ran"].append("pinned suite on /repo and on the changed tree (junit pass sets compared)")
        d0 = sh("cd /tmp && PYTHONPATH=/repo PYTHONHASHSEED=0 /venv/bin/python %s" % os.path.abspath(a.demo))
        d1 = sh("cd /tmp && PYTHONPATH=%s PYTHONHASHSEED=0 /venv/bin/python %s" % (wt, os.path.abspath(a.demo)))
        meta["demo_unchanged_exit"] = d0.returncode; meta["demo_changed_exit"] = d1.returncode
        meta["demo_changed_tail"] = (d1.stdout + d1.stderr)[-400:]
        meta["ran"].append("demo.py with PYTHONPATH=/repo (expect exit 0) and PYTHONPATH=<changed tree> (expect exit 1)")
        results = {}
        for prop in (a.checks.split(",") if a.checks else [a.prop]):
            t0 = time.time()
            env = dict(os.environ, VERIF_REPO=wt, VERIF_RUN_TAG="seed_%s" % a.sid)
            c = subprocess.run(["./check", prop, "--tier", a.tier], cwd=str(ROOT), capture_output=True, text=True, env=env)
            vio = [l for l in c.stdout.splitlines() if l.startswith("VIOLATION")]
            ex = None
            for l in vio[:1]:
                m = re.search(r"replay=(\S+)", l)
                if m and os.path.exists(m.group(1)):
                    ex = json.load(open(m.group(1)))
                    ex = {k: ex[k] for k in ("kind", "why", "input", "what") if k in ex}
                    ex = json.loads(json.dumps(ex, default=str)[:6000]) if len(json.dumps(ex, default=str)) <= 6000 else {"truncated": json.dumps(ex, default=str)[:6000]}
            meta.setdefault("replay_examples", {})[prop] = ex
            results[prop] = {"exit": c.returncode, "violation_lines": len(vio), "first": vio[:2],
                             "concrete": any("no-failing-input-found" not in l for l in vio), "wall_s": round(time.time() - t0, 1)}
            meta["ran"].append("VERIF_REPO=<changed tree> ./check %s --tier %s" % (prop, a.tier))
        meta["checks"] = results
        meta["caught_by"] = [p for p, r in results.items() if r["exit"] != 0 and r["violation_lines"]]
        return finish(a, meta, wt)
    finally:
        sh("git -C /repo worktree remove --force %s" % wt)
        shutil.rmtree(ROOT / "work" / ("seed_%s" % a.sid), ignore_errors=True)

def finish(a, meta, wt):
    valid = meta.get("patch_applies") and meta.get("pinned_still_pass") and meta.get("demo_unchanged_exit") == 0 and meta.get("demo_changed_exit") not in (0, None)
    meta["valid_seed"] = bool(valid)
    out = ROOT / "seeded" / a.sid
    if valid:
        out.mkdir(parents=True, exist_ok=True)
        shutil.copy(a.patch, out / "patch.diff"); shutil.copy(a.demo, out / "demo.py")
        for x in [e for e in a.extra.split(",") if e]:
            if os.path.abspath(x) != os.path.abspath(out / os.path.basename(x)):
                shutil.copy(x, out / os.path.basename(x))
        (out / "meta.json").write_text(json.dumps(meta, indent=1))
    print(json.dumps(meta, indent=1))
    return 0

if __name__ == "__main__":
    sys.exit(main())
