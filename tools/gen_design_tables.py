#!/usr/bin/env python3
"""Regenerates the machine-written tables of DESIGN.md (between <!-- BEGIN GENERATED <name> --> / <!-- END GENERATED <name> -->)
from the files they summarise, so that DESIGN.md cannot drift from what is in the tree:
  findings  - known_findings.json (open and fixed findings, repair commits)
  theorems  - coq/Props/Cnn.v (theorem names), dependency closure sizes, Qed counts
  seeds     - seeded/<id>/meta.json (which registered check caught which seeded change)
usage: python3-vt tools/gen_design_tables.py"""
import json, re, sys
from pathlib import Path
ROOT = Path(__file__).resolve().parent.parent
sys.path.insert(0, str(ROOT))
from harness.common import dep_closure, strip_comments, COQ  # noqa: E402


def short(s, n):
    s = " ".join(str(s).split())
    return s if len(s) <= n else s[: n - 1].rstrip() + "…"


def findings_table():
    fs = json.load(open(ROOT / "known_findings.json"))["findings"]
    by = {}
    for f in fs:
        k = (f["id"], f["status"], f.get("commit") or "")
        by.setdefault(k, {"props": [], "what": f.get("what", ""), "root": f.get("root_cause", "")})
        by[k]["props"].append(f["property"])
    def key(k):
        m = re.match(r"D(\d+)(.*)", k[0])
        return (0 if k[1] == "open" else 1, int(m.group(1)) if m else 999, m.group(2) if m else k[0])
    out = ["| id | status | repair commit | properties | what fails (first words; full text, witness and class in known_findings.json) |", "|---|---|---|---|---|"]
    for k in sorted(by, key=key):
        v = by[k]
        out.append("| %s | %s | %s | %s | %s |" % (k[0], k[1], k[2] or "—", " ".join(sorted(set(v["props"]))), short(v["what"], 170).replace("|", "\\|")))
    n_open = len({k[0] for k in by if k[1] == "open"})
    n_fixed = len({k[0] for k in by if k[1] == "fixed"})
    out.append("")
    out.append("%d distinct open findings, %d distinct repaired ones (a finding listed under several properties counts once)." % (n_open, n_fixed))
    return "\n".join(out)


def theorems_table():
    out = ["| property | theorems in `Props/Cnn.v` | files in its closure | `Qed` in the closure | `_partial` / `_refuted` / `_statement` |", "|---|---|---|---|---|"]
    tot_t = tot_q = 0
    allmods = set()
    for i in range(1, 21):
        p = "C%02d" % i
        src = strip_comments((COQ / "Props" / (p + ".v")).read_text())
        thms = re.findall(r"^\s*(?:Theorem|Lemma|Corollary)\s+([\w']+)", src, re.M)
        defs = re.findall(r"^\s*Definition\s+([\w']+_statement)\b", src, re.M)
        mods = dep_closure("Props." + p)
        q = sum(len(re.findall(r"\bQed\s*\.", strip_comments((COQ / (m.replace(".", "/") + ".v")).read_text()))) for m in mods)
        special = [t for t in thms if re.search(r"_partial|_refuted", t)] + defs
        out.append("| %s | %d | %d | %d | %s |" % (p, len(thms), len(mods), q, ", ".join("`%s`" % s for s in special) or "—"))
        tot_t += len(thms); allmods |= set(mods)
    allq = sum(len(re.findall(r"\bQed\s*\.", strip_comments(f.read_text()))) for f in COQ.glob("*/*.v"))
    lines = sum(len(f.read_text().splitlines()) for f in COQ.glob("*/*.v"))
    out.append("")
    out.append("Totals: %d property theorems; %d `.v` files, %d lines, %d `Qed` in the whole development (%d files are in some property's closure)." % (tot_t, len(list(COQ.glob("*/*.v"))), lines, allq, len(allmods)))
    return "\n".join(out)


def seeds_table():
    out = ["| seed | breaks | what the change does (first words) | needs to manifest | registered checks run on it → outcome |", "|---|---|---|---|---|"]
    n = caught = 0
    for d in sorted((ROOT / "seeded").glob("C*_*")):
        mf = d / "meta.json"
        if not mf.exists():
            continue
        m = json.load(open(mf))
        res = []
        any_caught = False
        for prop, c in (m.get("checks") or {}).items():
            if not isinstance(c, dict):
                continue
            nv = int(c.get("violation_lines") or 0)
            if c.get("exit") == 1 and nv:
                any_caught = True
                res.append("%s: VIOLATION ×%d (%s)" % (prop, nv, "concrete failing input" if c.get("concrete") else "no-failing-input-found"))
            else:
                res.append("%s: exit %s, no VIOLATION" % (prop, c.get("exit")))
        n += 1; caught += any_caught
        out.append("| %s | %s | %s | %s | %s |" % (m.get("id", d.name), m.get("property"), short(m.get("summary", ""), 150).replace("|", "\\|"),
                                                 short(m.get("needs_to_manifest", ""), 120).replace("|", "\\|"), "; ".join(res) or "not run"))
    out.append("")
    out.append("%d seeded changes kept, %d reported by at least one registered check." % (n, caught))
    return "\n".join(out)


def main():
    p = ROOT / "DESIGN.md"
    txt = p.read_text()
    for name, fn in (("findings", findings_table), ("theorems", theorems_table), ("seeds", seeds_table)):
        pat = re.compile(r"(<!-- BEGIN GENERATED %s -->\n).*?(\n?<!-- END GENERATED %s -->)" % (name, name), re.S)
        if not pat.search(txt):
            print("marker for %s not found" % name)
            continue
        body = fn()
        txt = pat.sub(lambda m: m.group(1) + body + "\n<!-- END GENERATED %s -->" % name, txt)
    p.write_text(txt)


if __name__ == "__main__":
    main()
