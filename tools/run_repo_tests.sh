#!/bin/sh
# Runs the pinned suite (cwd=/repo, expects 63 passed) and the wider suite (each test dir as cwd; expects 273 passed in total).
# Usage: run_repo_tests.sh [repo_dir]
R=${1:-/repo}
cd "$R" || exit 2
echo "== pinned (cwd=$R)"; PYTHONPATH="$R" /venv/bin/python -m pytest -q -p no:cacheprovider --timeout=900 --continue-on-collection-errors 2>&1 | tail -1
for d in exporters_tests lisp_parsers_tests models_tests multi_agent_tests; do
  cd "$R/tests/$d" || exit 2
  echo "== wider $d"; PYTHONPATH="$R" /venv/bin/python -m pytest -q -p no:cacheprovider --timeout=900 . 2>&1 | tail -1
done
rm -f "$R/tests/exporters_tests/test_numeric_trajectory" "$R/tests/exporters_tests/test_trajectory"
cd "$R" && git status --short --ignored | grep -v egg-info
