#!/bin/sh
# Re-checks the compiled property files and everything they depend on with Coq's independent checker (coqchk) and prints the
# axioms they rely on (-o).  Slow (minutes, GBs of memory): run by hand / by the thorough tier of no check; the last result is
# kept in coqchk_result.txt (committed).  usage: tools/coqchk_all.sh [C01 C02 ...]   (default: all 20)
cd "$(dirname "$0")/../coq" || exit 2
PROPS=${*:-"C01 C02 C03 C04 C05 C06 C07 C08 C09 C10 C11 C12 C13 C14 C15 C16 C17 C18 C19 C20"}
MODS=""
for p in $PROPS; do MODS="$MODS Verif.Props.$p"; done
ulimit -s unlimited 2>/dev/null || true
START=$(date +%s)
timeout 7200 coqchk -silent -o -Q . Verif $MODS > ../work/coqchk.out 2>&1
RC=$?
END=$(date +%s)
{
  echo "coqchk -silent -o -Q . Verif$MODS"
  echo "exit status $RC, $((END-START)) s, $(date -u +%Y-%m-%dT%H:%MZ), coq $(coqc --version | head -1)"
  sed -n '/CONTEXT SUMMARY/,$p' ../work/coqchk.out
} > ../coqchk_result.txt
tail -40 ../coqchk_result.txt
exit $RC
