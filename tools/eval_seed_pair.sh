#!/bin/sh
# usage: tools/eval_seed_pair.sh Cnn [extra-checks]   evaluates /tmp/seedout_Cnn/{patch,demo}_{A,B} with tools/eval_seed.py,
# then removes the seed-writer's scratch worktrees /tmp/seed_Cnn_{A,B}.
P=$1; CH=${2:-$1}; LET=${3:-"A B"}; D=${4:-/tmp/seedout_$P}
cd "$(dirname "$0")/.."
EXTRA=$(ls $D/*.py $D/*.pddl $D/*.txt 2>/dev/null | grep -v '/demo_[ABCDEFGH].py$\|passed\|base_' | tr '\n' ',')
for X in $LET; do
  [ -f $D/patch_$X.diff ] || continue
  S=$(python3-vt -c "import json,sys; m=json.load(open('$D/meta.json')); print(m.get('$X',{}).get('summary',''))" 2>/dev/null)
  N=$(python3-vt -c "import json,sys; m=json.load(open('$D/meta.json')); print(m.get('$X',{}).get('needs_to_manifest',''))" 2>/dev/null)
  python3-vt tools/eval_seed.py $P ${P}_$X $D/patch_$X.diff $D/demo_$X.py --summary "$S" --needs "$N" --extra "$EXTRA" --checks "$CH" > work/allrun/seed_${P}_$X.json 2>&1
  python3-vt -c "
import json
t=open('work/allrun/seed_${P}_$X.json').read()
m=json.loads(t[t.index('{'):])
print('${P}_$X', 'valid' if m.get('valid_seed') else 'INVALID', {k:(v['exit'],v['violation_lines'],'concrete' if v['concrete'] else 'nfi', v['wall_s']) for k,v in (m.get('checks') or {}).items()}, 'demo', m.get('demo_unchanged_exit'), m.get('demo_changed_exit'), 'pinned', m.get('pinned_still_pass'))
"
  git -C /repo worktree remove --force /tmp/seed_${P}_$X 2>/dev/null
done
