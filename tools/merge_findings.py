#!/usr/bin/env python3
"""Development-time tool: merges findings.d/Cnn.json fragments into the committed known_findings.json.
(The checks only ever read known_findings.json; nothing writes it at check time.)"""
import json
from pathlib import Path
ROOT = Path(__file__).resolve().parent.parent
out = {"_comment": "Committed list of genuine defects of /repo that are recorded rather than repaired (status open) and of repaired ones (status fixed). "
                   "Generated from findings.d/*.json by tools/merge_findings.py at development time; never written at check time. A check prints KNOWN-FINDING only "
                   "for an open entry whose witness reproduces; a fixed entry suppresses nothing.",
       "findings": []}
ids = set()
for frag in sorted((ROOT / "findings.d").glob("*.json")):
    for f in json.loads(frag.read_text()):
        # Cnn.json fragments belong to one property; X_*.json fragments (coordinator) name the property per entry
        assert f["property"] == frag.stem or frag.stem.startswith("X_"), (frag, f["id"])
        assert f["status"] in ("open", "fixed")
        assert (f["id"], f["property"]) not in ids
        ids.add((f["id"], f["property"]))
        out["findings"].append(f)
(ROOT / "known_findings.json").write_text(json.dumps(out, indent=1))
print(len(out["findings"]), "findings")
