#!/bin/sh
# Full .vo build of /verif/coq (no -vos). Serialised with a lock so that checks may call it concurrently.
set -e
cd "$(dirname "$0")/../coq"
exec 9>.build.lock
flock 9
{
  echo "-Q . Verif"
  echo "-arg -w -arg -notation-overridden,-deprecated-hint-without-locality,-deprecated-hint-rewrite-without-locality"
  find Base Spec Model Proofs Props Corr -name '*.v' | LC_ALL=C sort
} > _CoqProject.new
if ! cmp -s _CoqProject.new _CoqProject 2>/dev/null; then mv _CoqProject.new _CoqProject; rm -f Makefile Makefile.conf; else rm -f _CoqProject.new; fi
[ -f Makefile ] || coq_makefile -f _CoqProject -o Makefile >/dev/null
ulimit -s unlimited 2>/dev/null || true
if timeout 3000 make -j16 > build.log 2>&1; then
  exit 0
else
  rc=$?
  tail -40 build.log
  exit $rc
fi
