#!/bin/sh
# Full .vo build of /verif/coq (no -vos). Serialised with a lock so that checks may call it concurrently.
# usage: build_coq.sh            build everything (setup)
#        build_coq.sh T1.vo ...  build only these targets and what they depend on (what one check needs)
set -e
cd "$(dirname "$0")/../coq"
exec 9>.build.lock
flock 9
{
  echo "-Q . Verif"
  echo "-arg -w -arg -notation-overridden,-deprecated-hint-without-locality,-deprecated-hint-rewrite-without-locality"
  find Base Spec Model Proofs Props Corr -name '*.v' | LC_ALL=C sort
} > _CoqProject.new
if ! cmp -s _CoqProject.new _CoqProject 2>/dev/null; then mv _CoqProject.new _CoqProject; rm -f Makefile Makefile.conf; else rm -f _CoqProject.new; fi
[ -f Makefile ] || coq_makefile -f _CoqProject -o Makefile >/dev/null
ulimit -s unlimited 2>/dev/null || true
# no single coqc may eat the machine (a runaway vm_compute reached 38 GB once): 24 GB of address space at most
ulimit -v 24000000 2>/dev/null || true
# -k: one property's broken file must not stop the others from building; every check verifies that the
# .vo files of ITS dependency closure are present and newer than their sources (harness/common.py).
rc=0
# cores not already busy (load average), between 4 and 16
J=$(awk '{b=int($1); n=16-b; if (n<4) n=4; if (n>16) n=16; print n}' /proc/loadavg 2>/dev/null || echo 8)
if [ $# -gt 0 ]; then
  log=build_targets.log
  timeout 1500 make -k -j${VERIF_MAKE_J:-$J} "$@" > $log 2>&1 || rc=$?
else
  log=build.log
  timeout 3000 make -k -j${VERIF_MAKE_J:-$J} > $log 2>&1 || rc=$?
fi
if [ $rc -ne 0 ]; then grep -B2 -A12 "^Error\|Error:" $log | head -60; fi
exit 0
