#!/bin/sh
# Build the Coq development (full .vo build) from files on disk only.
set -e
cd "$(dirname "$0")"
exec ./tools/build_coq.sh
